"""C25 — brush-constrained designs are unions of brush placements (BrushConstraint2D).  PARTIAL."""
import json

import numpy as np

from lib import core
from lib.core import blit, lst2, natlit, zlit

PID = "C25"
PROPS_FILE = "props/C25.v"
IMPL = "C25_impl.py"
COQ_HEADER = "From Coq Require Import ZArith.\nFrom FV Require Import base.Util base.MorphBase model.MorphBrush."
SHARD = 6
RULE = ("random integer-valued 2-D designs (extents 3..7, values -8..8, also two-level) and circular brushes of diameter 1, 2.5, 3, 5 "
        "(plus an asymmetric hand-made brush in the thorough tier), through _generator and through the module (axis 0/1/2); model result == "
        "implementation result (exact) with fuel 2*nx*ny+3; predicate: binary output, every solid pixel lies in an in-domain-clipped brush "
        "footprint that is entirely solid and every void pixel in one that is entirely void; non-trivial = output has solid and void pixels")
EXHAUSTIVE = {"quick": False, "thorough": False}
ASSUMPTIONS = ["design values are small integers (exact in float; only comparisons and argmax-first-maximum matter)",
               "termination is proved only under the progress (feasibility) hypothesis and bounded-exhaustively; a non-terminating input would hang the driver (900 s timeout -> reported as a broken run)",
               "brush arrays have odd size and are no larger than the design in both axes"]
TRUSTED = ["correspondence harness (exact array comparison)", "footprint oracle in harness/props/C25.py"]


def gen_case(rng, quick):
    nx, ny = rng.randint(3, 6 if quick else 7), rng.randint(3, 6 if quick else 7)
    ds = [1.0, 2.0, 2.5, 3.0, 3.0, 3.0] + ([5.0, 4.0] if min(nx, ny) >= 5 else [])
    c = {"shape": [nx, ny], "diameter": rng.choice(ds)}
    if rng.random() < 0.3:
        c["x"] = [[float(rng.choice([-1, 1])) for _ in range(ny)] for _ in range(nx)]
    else:
        c["x"] = [[float(rng.randint(-8, 8)) for _ in range(ny)] for _ in range(nx)]
    if rng.random() < 0.3:
        c["module"] = True
        c["axis"] = rng.randint(0, 2)
    return c


def gen_cases(ctx):
    rng = ctx.rng
    cases = []
    corpus = core.VERIF / "harness" / "corpus" / "C25.json"
    if corpus.exists():
        cases += json.loads(corpus.read_text())
    # few distinct (shape, brush) pairs, several designs each: the driver compiles the loop once per pair
    for _ in range(ctx.pick(8, 30)):
        base = gen_case(rng, ctx.quick)
        for _ in range(ctx.pick(5, 8)):
            c = gen_case(rng, ctx.quick)
            c.update(shape=base["shape"], diameter=base["diameter"])
            nx, ny = base["shape"]
            if rng.random() < 0.45:   # two-level designs: the solid/void maxima tie in every selection step
                c["x"] = [[float(rng.choice([-1, 1])) for _ in range(ny)] for _ in range(nx)]
            else:
                c["x"] = [[float(rng.randint(-4, 4)) for _ in range(ny)] for _ in range(nx)]
            cases.append(c)
    # designs thinner than the brush along one axis (even and odd widths): the dilation then runs on an image smaller than its kernel
    thin = [([4, 9], 5.0), ([2, 7], 3.0), ([8, 4], 5.0), ([3, 8], 5.0)] + ([] if ctx.quick else [([6, 10], 7.0), ([9, 2], 3.0), ([4, 4], 5.0), ([5, 11], 6.0)])
    for shape, dia in thin:
        for _ in range(ctx.pick(4, 6)):
            nx, ny = shape
            c = {"shape": list(shape), "diameter": dia}
            c["x"] = ([[float(rng.choice([-1, 1])) for _ in range(ny)] for _ in range(nx)] if rng.random() < 0.4
                      else [[float(rng.randint(-4, 4)) for _ in range(ny)] for _ in range(nx)])
            cases.append(c)
    if not ctx.quick:
        for _ in range(10):
            c = gen_case(rng, False)
            c.pop("diameter")
            c["brush"] = [[0, 1, 0], [1, 1, 0], [0, 1, 1]]  # not centrally symmetric
            cases.append(c)
    return cases


def run_cases(ctx, cases):
    return core.run_impl_sharded(IMPL, cases, shard=4, timeout=900)


def coq_expr(case, out):
    if "timeout" in out or "skipped" in out:
        return None
    if "error" in out:
        return "false"
    nx, ny = case["shape"]
    b = out["brush"]
    xs = lst2([[int(v) for v in r] for r in case["x"]], zlit)
    design = f"(fun i j => nth j (nth i {xs} []) 0%Z)"
    return (f"match generator {natlit(nx)} {natlit(ny)} {natlit(len(b))} {lst2(b, blit)} {design} {natlit(2 * nx * ny + 3)} with "
            f"Some r => arr2_eqb r {lst2(out['out'], blit)} | None => false end")


def footprint(b, p, q, nx, ny):
    """in-domain pixels of the brush centred at (p,q) (as dilate_jax places it)"""
    bs = len(b)
    c = (bs - 1) // 2
    return [(p + a - c, q + d - c) for a in range(bs) for d in range(bs) if b[a][d] and 0 <= p + a - c < nx and 0 <= q + d - c < ny]


def predicate(case, out):
    if "skipped" in out:
        return None
    if "timeout" in out:
        return ("brush-no-termination", f"BrushConstraint2D did not terminate within {out['timeout']:.0f} s on this design (brush {case.get('diameter', 'custom')}, "
                                        f"design {case['shape'][0]}x{case['shape'][1]})")
    if "error" in out:
        return ("brush-error", f"BrushConstraint2D fails: {out['error']}")
    if not out["binary"]:
        return ("brush-not-binary", "output is not binary")
    nx, ny = case["shape"]
    o = np.asarray(out["out"])
    b = out["brush"]
    if case.get("diameter") is not None:
        # independent oracle of the circular brush: odd size >= ceil(d), centred disc of the given diameter (<=)
        import math
        dd = float(case["diameter"])
        size = math.ceil(dd) + (1 if math.ceil(dd) % 2 == 0 else 0)
        cc = (size - 1) / 2.0
        disc = [[1 if math.hypot(i - cc, j - cc) <= dd / 2 else 0 for j in range(size)] for i in range(size)]
        if [list(map(int, r)) for r in b] != disc:
            return ("circular-brush-shape", f"circular_brush({dd}) is not the centred disc of that diameter: {b} vs {disc}")
    sym = all(b[a][d] == b[len(b) - 1 - a][len(b) - 1 - d] for a in range(len(b)) for d in range(len(b)))
    # the property quantifies over circular (centrally symmetric) brushes; for the hand-made asymmetric brush of the thorough tier the void
    # region is a union of footprints of the point-reflected brush, so only the solid half (and model == implementation) is checked there
    for val, name in (((1, "solid"), (0, "void")) if sym else ((1, "solid"),)):
        cov = np.zeros((nx, ny), dtype=bool)
        # every placement whose in-domain part is non-empty counts (the property speaks of "brush footprints whose in-domain part lies
        # entirely within that region"; the centre itself may lie outside the design - needed for brushes that are not centrally symmetric)
        r_ = len(b)
        for p in range(-r_, nx + r_):
            for q in range(-r_, ny + r_):
                fp = footprint(b, p, q, nx, ny)
                if fp and all(o[i, j] == val for i, j in fp):
                    for i, j in fp:
                        cov[i, j] = True
        bad = np.argwhere((o == val) & ~cov)
        if len(bad):
            return (f"brush-{name}-feature-too-small", f"{name} pixel {tuple(int(v) for v in bad[0])} is not covered by any brush placement lying "
                                                       f"entirely in the {name} region (brush {len(b)}x{len(b)}, design {nx}x{ny})")
    return None


def nontrivial(case, out):
    if "timeout" in out or "skipped" in out:
        return False
    o = np.asarray(out.get("out", [[0]]))
    return bool(o.any() and not o.all())


def classify(case, out):
    return f"{'module' if case.get('module') else 'generator'}/d={case.get('diameter', 'custom')}"


def search(ctx, broken):
    cases = [gen_case(ctx.rng, False) for _ in range(40)]
    outs = run_cases(ctx, cases)
    found = []
    for c, o in zip(cases, outs):
        r = predicate(c, o)
        if r:
            found.append((c, o, r[0], r[1]))
    return found, len(cases)


LEVEL_TEXT = ("PARTIAL. Theorems (all sizes/brushes/designs): the result is exactly the union of the clipped footprints of the solid touches; at exit every "
              "pixel is in a solid or a void footprint; touches only grow; termination within 2*nx*ny+1 iterations under the named progress (feasibility) "
              "hypothesis. Bounded-exhaustive (vm_compute): for every two-level design on boxes up to 3x3 (brush 3) / 2x3 (brush 1) the loop terminates "
              "and void = union of void footprints (solid/void footprints disjoint). Correspondence: whole result arrays, exact, on random designs and brushes.")
LEVEL_NOTE = ("Not proved in general: disjointness of solid and void footprints (needs a centrally symmetric brush and the valid-touch invariant), hence the void half "
              "of the statement, and unconditional termination. Both are checked on every run by the footprint oracle (predicate) and the fuelled model.")
TECHNIQUE = "Coq proof (structural lemmas, counting termination argument, vm_compute bounded exhaustion) + differential correspondence + footprint oracle"
