"""C10 — fields are linear in sources and initial state."""
from lib import core, yee_coq as Y
from props import C03

PID = "C10"
PROPS_FILE = "props/C10.v"
COQ_HEADER = C03.COQ_HEADER
SHARD = 1
RULE = ("(a) superposition: placed scenes (plane, Gaussian, dipole, magnetic dipole sources; PML / periodic / PEC boundaries; field, phasor, energy, "
        "Poynting detectors; random initial fields) run once per source with unit amplitude, once with only the initial fields, and once combined "
        "with random amplitude factors: combined fields and linear records must equal the weighted sum, quadratic records scale with g^2 under a "
        "common factor g; (b) model tie: per-step correspondence of the Coq model against forward() on a scene with sources and CPML")
ASSUMPTIONS = ["source injections are additive oracle arrays in the model", "superposition itself is measured between implementation runs (tolerance 1e-10 relative)"]
TRUSTED = ["correspondence harness"]
LEVEL_TEXT = ("Theorem (every scene of the model incl. any list of CPML layers, any number of steps): forward is linear in (E, H, psi accumulators, source "
              "injections) cell by cell. Detector records (linear: field/phasor; quadratic: energy/Poynting) are decided by the implementation predicate; the "
              "model is tied to forward() by per-step correspondence including CPML. The fully anisotropic tiers (model/YeeFull.v) have the same theorem for PML-free scenes: lossless (C10_forward_full_tensor_linear) and "
              "conductive (C10_forward_lossy_tensor_linear; C10_lossy_matrices_solve: the adjugate matrices solve M1 A = M2).")
LEVEL_NOTE = "Detector-record linearity / quadratic scaling is measured on the implementation, not proved; sources are additive oracles whose amplitude factor scales the injection."
TECHNIQUE = "Coq proof (pointwise ring identities lifted through ghost reads and the CPML loop) + differential superposition runs"
QUAD = ["energy", "poynting"]


def lin_case(rng, quick, i):
    T = 6 if quick else rng.choice([6, 9])
    bt = [{"min_x": "periodic", "max_x": "periodic", "min_y": "periodic", "max_y": "periodic", "min_z": "pml", "max_z": "pml"},
          {"min_x": "pec", "max_x": "pmc", "min_y": "periodic", "max_y": "periodic", "min_z": "pml", "max_z": "pec"},
          {f: "pml" for f in C03.FACES}][i % 3]
    srcs = [{"kind": "dipole", "cell": [3, 3, 5], "pol": rng.randint(0, 2)}, {"kind": "dipole", "cell": [2, 3, 4], "pol": rng.randint(0, 2), "mag": True}]
    if bt["min_x"] == "periodic":
        srcs.append({"kind": "plane", "axis": 2, "pos": 4, "dir": rng.choice("+-"), "pol": [1.0, 0.5, 0.0], "switch": {"start_time": 1}})
        srcs.append({"kind": "gauss", "axis": 2, "pos": 5, "dir": "+", "pol": [0.0, 1.0, 0.0], "radius": 1.5e-7})
    # every third scene (the one with plane / Gaussian sources) contains a dispersive (Lorentz) slab: sources then go through their
    # dispersion-corrected injection path, and the polarisation state is part of the linear system
    blocks = [{"box": [[1, 6], [1, 6], [7, 9]], "eps": 2.25, "lorentz": {"w0": 4.0e15, "g": 1.0e14, "de": 1.5}, "name": "lor"}] if i % 3 == 0 else []
    spec = {"shape": [7, 7, 10], "spacing": 5e-8, "steps": T, "bt": bt, "thickness": 2, "sources": srcs, "blocks": blocks,
            "detectors": [{"kind": "field", "box": [[2, 5], [2, 5], [3, 6]], "name": "fd", "opts": {"exact_interpolation": bool(i % 2)}},
                          {"kind": "phasor", "box": [[2, 4], [2, 4], [4, 6]], "name": "ph"},
                          {"kind": "energy", "box": [[2, 5], [2, 5], [3, 6]], "name": "en", "opts": {"as_slices": False}},
                          {"kind": "poynting", "box": [[2, 5], [2, 5], [6, 7]], "name": "pf", "opts": {"direction": "+"}}],
            "init": {"seed": rng.randint(0, 10**6), "kind": "normal"},
            "mats": {"seed": rng.randint(0, 10**6), "ncomp": rng.choice([1, 3]), "pow2": False}}
    amps = [round(rng.uniform(-2, 2), 3) for _ in range(len(srcs) + 1)]
    return {"kind": "lin", "spec": spec, "amps": amps, "g": rng.choice([-1.5, 0.5, 3.0]), "quad_keys": QUAD}


def gen_cases(ctx):
    cases = [lin_case(ctx.rng, ctx.quick, i) for i in range(ctx.pick(2, 9))]
    c = C03.gen_case(ctx.rng, True, 0)
    c.update(kind="model", back=0, record=False)
    cases.append(c)
    return cases


def run_cases(ctx, cases):
    lin = [c for c in cases if c["kind"] == "lin"]
    mod = [c for c in cases if c["kind"] == "model"]
    ol = core.run_impl_sharded("C10_impl.py", lin, shard=min(len(lin), 6), timeout=2400)
    om = core.run_impl_sharded("scene_impl.py", mod, shard=1)
    il, im = iter(ol), iter(om)
    return [next(il) if c["kind"] == "lin" else next(im) for c in cases]


def coq_expr(case, out):
    if case["kind"] != "model":
        return None
    return C03.coq_expr(case, out)


def predicate(case, out):
    if "error" in out:
        return ("driver-error", out["error"] + out.get("trace", "")[-300:])
    if case["kind"] == "model":
        return None
    bt = case["spec"]["bt"]
    for k, v in out["linear"].items():
        if v["err"] > 1e-10:
            return (f"not-linear:{k};z={bt['min_z']}/{bt['max_z']}", f"{k}: combined run differs from the weighted sum of single runs by {v['err']:.3e} (relative)")
    for k, v in out["quadratic"].items():
        if v["err"] > 1e-10:
            return (f"not-quadratic:{k}", f"{k}: does not scale with g^2: {v['err']:.3e}")
    return None


def nontrivial(case, out):
    return "error" not in out and (case["kind"] == "model" or all(v["scale"] > 0 for k, v in out["linear"].items() if k in ("E", "H")))


def classify(case, out):
    return case["kind"] + ("|" + "+".join(s["kind"] + ("M" if s.get("mag") else "") for s in case["spec"]["sources"]) if case["kind"] == "lin" else "")
