"""C21 — design symmetry transforms produce symmetric designs."""
from fractions import Fraction
import itertools
import numpy as np
from lib import core
from lib.core import lst3, qlit

PID = "C21"
PROPS_FILE = "props/C21.v"
IMPL = "C21_impl.py"
COQ_HEADER = ("From Coq Require Import ZArith QArith Qcanon.\n"
              "From FV Require Import base.Scalar base.Util base.DesignTransformsBase model.DesignTransforms_Sym.")
SHARD = 40
RULE = ("every transform x option (15 combinations) x random shapes (extents 1..6, singleton axis at every position for the 2-D "
        "transforms, square where the diagonal transforms need it) x input kinds {random dyadic k/16, already symmetric, constant, "
        "random float64 (tolerant), float32}; model output == implementation output exactly (dyadic) / within 1e-12 (float stream); "
        "malformed stream (no singleton axis, non-square diagonal, illegal option string): model None <-> implementation raises or "
        "changes the shape; non-trivial = in-domain case whose input is not already symmetric")
EXHAUSTIVE = {"quick": False, "thorough": False}
ASSUMPTIONS = ["float64/float32 (x + y)/2 is exact on the dyadic inputs used for the exact comparison (|k| <= 2^10, denominators 16)",
               "field of characteristic != 2 (hypothesis 1+1 <> 0 of the theorems; holds for Qc and the reals)"]
TRUSTED = ["correspondence harness (exact Qc comparison of nested lists)",
           "numpy flip/swapaxes used by the predicate as the specification of 'its reflection, rotation or transposition'"]

T2 = ["Horizontal2D", "Vertical2D", "Point2D"]
COMBOS = ([(t, {}) for t in T2] + [("Diagonal2D", {"mm": m}) for m in (True, False)]
          + [("Horizontal3D", {"axis": a}) for a in "xy"] + [("Vertical3D", {}), ("Point3D", {})]
          + [("Diagonal3D", {"plane": p, "mm": m}) for p in ("xy", "xz", "yz") for m in (True, False)])
PLANE = {"xy": (0, 1), "xz": (0, 2), "yz": (1, 2)}


# ---------------------------------------------------------------- specification side (numpy, independent of the model)
def axes2d(shape):
    va = list(shape).index(1)
    return [a for a in (0, 1, 2) if a != va]


def reflect(t, o, a):
    """the reflection / rotation / transposition the transform is named after, applied to a 3-D numpy array"""
    if t in T2 or t == "Diagonal2D":
        p, q_ = axes2d(a.shape)
        if t == "Horizontal2D": return np.flip(a, p)
        if t == "Vertical2D": return np.flip(a, q_)
        if t == "Point2D": return np.flip(a, (p, q_))
        return np.swapaxes(a, p, q_) if o["mm"] else np.swapaxes(np.flip(a, (p, q_)), p, q_)
    if t == "Horizontal3D": return np.flip(a, {"x": 0, "y": 1}[o["axis"]])
    if t == "Vertical3D": return np.flip(a, 2)
    if t == "Point3D": return np.flip(a, (0, 1, 2))
    p, q_ = PLANE[o["plane"]]
    return np.swapaxes(a, p, q_) if o["mm"] else np.swapaxes(np.flip(a, (p, q_)), p, q_)


def in_domain(t, o, shape):
    if t in T2 or t == "Diagonal2D":
        if 1 not in shape:
            return False
        if t == "Diagonal2D":
            p, q_ = axes2d(shape)
            return shape[p] == shape[q_]
        return True
    if t == "Horizontal3D":
        return o["axis"] in ("x", "y")
    if t == "Diagonal3D":
        return o["plane"] in PLANE and shape[PLANE[o["plane"]][0]] == shape[PLANE[o["plane"]][1]]
    return True


def case_array(c):
    if "num" in c:
        return np.asarray(c["num"], dtype=np.float64).reshape(c["shape"]) / float(c["den"])
    return np.asarray([[[float.fromhex(v) for v in r] for r in p] for p in c["hex"]], dtype=np.float64).reshape(c["shape"])


def out_array(h, shape):
    return np.asarray([[[float.fromhex(v) for v in r] for r in p] for p in h], dtype=np.float64).reshape(shape)


def fsum(a):
    return sum((Fraction(float(v)) for v in np.asarray(a).ravel()), Fraction(0))


# ---------------------------------------------------------------- cases
def rand_shape(rng, t, o, hi):
    n = lambda: rng.randint(1, hi)
    if t in T2 or t == "Diagonal2D":
        va = rng.randrange(3)
        s = [n(), n(), n()]
        if t == "Diagonal2D":
            m = rng.randint(2, hi)   # extents >= 2 so that the intended singleton axis is the first one of extent 1
            s = [m, m, m]
        s[va] = 1
        if t != "Diagonal2D" and rng.random() < 0.7:
            s = [max(2, v) if i != va else 1 for i, v in enumerate(s)]
        return s
    s = [n(), n(), n()]
    if t == "Diagonal3D":
        p, q_ = PLANE[o["plane"]]
        s[q_] = s[p]
    return s


def mk(rng, t, o, shape, kind):
    c = {"t": t, "opts": o, "shape": shape, "kind": kind}
    size = shape[0] * shape[1] * shape[2]
    if kind == "float":
        a = np.asarray([rng.uniform(-1, 2) for _ in range(size)]).reshape(shape)
        c["hex"] = [[[float(v).hex() for v in r] for r in p] for p in a]
        return c
    if kind == "const":
        k = rng.randint(-40, 40)
        a = np.full(shape, k, dtype=np.int64)
    else:
        a = np.asarray([rng.randint(-64, 64) for _ in range(size)], dtype=np.int64).reshape(shape)
        if kind == "symmetric" and in_domain(t, o, shape):
            a = a + reflect(t, o, a)
    c["num"], c["den"] = a.tolist(), 16
    if kind == "f32":
        c["dtype"] = "f32"
    return c


def malformed(rng):
    cs = []
    for t in T2 + ["Diagonal2D"]:
        o = {"mm": rng.random() < 0.5} if t == "Diagonal2D" else {}
        cs.append(mk(rng, t, o, [rng.randint(2, 4) for _ in range(3)], "malformed"))       # no singleton axis
    for mm in (True, False):
        for s in ([3, 1, 4], [1, 2, 3], [1, 1, 5], [4, 2, 1], [1, 1, 3]):
            cs.append(mk(rng, "Diagonal2D", {"mm": mm}, s, "malformed"))                     # non-square (raises or broadcasts)
        for pl, s in (("xy", [2, 3, 2]), ("xy", [1, 4, 2]), ("xz", [3, 2, 1]), ("xz", [2, 2, 3]), ("yz", [2, 2, 3]), ("yz", [2, 1, 3])):
            cs.append(mk(rng, "Diagonal3D", {"plane": pl, "mm": mm}, s, "malformed"))
    cs.append(mk(rng, "Horizontal3D", {"axis": "z"}, [2, 3, 2], "malformed"))
    cs.append(mk(rng, "Diagonal3D", {"plane": "zx", "mm": True}, [2, 2, 2], "malformed"))
    return cs


def load_corpus():
    import json
    f = core.VERIF / "harness" / "corpus" / "C21.json"
    return json.loads(f.read_text()) if f.exists() else []


def gen_cases(ctx, hi=None, reps=None):
    rng = ctx.rng
    hi = hi or ctx.pick(5, 7)
    reps = reps or ctx.pick(1, 4)
    cases = load_corpus()
    for t, o in COMBOS:
        for _ in range(reps):
            for kind in ("dyadic", "dyadic", "symmetric", "const", "float", "f32"):
                cases.append(mk(rng, t, o, rand_shape(rng, t, o, hi), kind))
        # deterministic edge shapes: two singleton axes / a single cell / singleton axis first
        for s in ([1, 1, 1], [1, 1, 4], [4, 1, 1], [1, 4, 1], [1, 3, 3], [3, 3, 1]):
            if in_domain(t, o, s):
                cases.append(mk(rng, t, o, s, "dyadic"))
    return cases + malformed(rng)


# ---------------------------------------------------------------- correspondence
def coq_sym(t, o):
    if t in T2 or t in ("Vertical3D", "Point3D"):
        return t
    if t == "Diagonal2D":
        return f"(Diagonal2D {core.blit(o['mm'])})"
    if t == "Horizontal3D":
        return f"(Horizontal3D {({'x': 'MX', 'y': 'MY'}).get(o['axis'], 'MBad')})"
    return f"(Diagonal3D {({'xy': 'PXY', 'xz': 'PXZ', 'yz': 'PYZ'}).get(o['plane'], 'PBad')} {core.blit(o['mm'])})"


def coq_input(c):
    if "num" in c:
        return lst3(c["num"], lambda v: qlit(Fraction(int(v), int(c["den"]))))
    return lst3(c["hex"], qlit)


def model_call(c):
    s = c["shape"]
    return f"sym_exec QcF {coq_sym(c['t'], c['opts'])} ({s[0]}, {s[1]}, {s[2]})%nat {coq_input(c)}"


def impl_undefined(c, out):
    return "error" in out or list(out["shape"]) != list(c["shape"])


def coq_expr(c, out):
    m = model_call(c)
    if impl_undefined(c, out):
        return f"match {m} with None => true | Some _ => false end"
    cmp_ = "qlist3_close (q 1 1000000000000)" if c["kind"] == "float" else "qlist3_eqb"
    return f"match {m} with Some y => {cmp_} y {lst3(out['y'], qlit)} | None => false end"


def show_model(c, out):
    return core.coq_eval_text(PID, COQ_HEADER, model_call(c))[-1500:]


# ---------------------------------------------------------------- the property on the implementation output
def key_of(c, what):
    o = c["opts"]
    tag = c["t"] + "".join(f"-{k}{o[k]}" for k in sorted(o))
    return f"{what}-{tag}-{'x'.join(map(str, c['shape']))}"


def predicate(c, out):
    t, o, shape = c["t"], c["opts"], c["shape"]
    if not in_domain(t, o, shape):
        return None                      # outside the quantifier of the property (the model ties the behaviour there)
    if impl_undefined(c, out):
        return (key_of(c, "undefined"), f"in-domain call failed or changed shape: {out}")
    x = case_array(c)
    if c.get("dtype") == "f32":
        x = x.astype(np.float32).astype(np.float64)
    y, yy = out_array(out["y"], shape), out_array(out["yy"], shape)
    if not np.array_equal(reflect(t, o, y), y):
        return (key_of(c, "asymmetric"), "output is not invariant under the transform's reflection/rotation/transposition")
    if not np.array_equal(yy, y):
        return (key_of(c, "idempotence"), "applying the transform twice differs from applying it once")
    if np.array_equal(reflect(t, o, x), x) and not np.array_equal(y, x):
        return (key_of(c, "symmetric-input-changed"), "an already symmetric input was modified")
    sx, sy = fsum(x), fsum(y)
    tol = Fraction(0) if c["kind"] != "float" else Fraction(1, 10**12) * max(1, abs(sx))
    if abs(sx - sy) > tol:
        return (key_of(c, "mean"), f"mean changed: sum(x)={float(sx)!r} sum(y)={float(sy)!r} over {x.size} cells")
    return None


def nontrivial(c, out):
    return in_domain(c["t"], c["opts"], c["shape"]) and "y" in out and not np.array_equal(reflect(c["t"], c["opts"], case_array(c)), case_array(c))


def classify(c, out):
    return f"{c['t']}/{c['kind']}"


def search(ctx, broken):
    """directed search: larger shapes and more repetitions through the predicate only"""
    cases = [c for c in gen_cases(ctx, hi=8, reps=3) if c["kind"] != "malformed"]
    outs = core.run_impl_sharded(IMPL, cases)
    found = []
    for c, o in zip(cases, outs):
        r = predicate(c, o)
        if r:
            found.append((c, o, r[0], r[1]))
    return found[:5], len(cases)


LEVEL_TEXT = ("Theorems (any field with 1+1<>0, all eight transforms and options, all shapes, all inputs) about the executed model "
              "sym_exec = tabulate((x + x∘sigma)/2): sigma maps the index box to itself and is an involution there; the call is defined "
              "exactly on the documented domain; output has the input's shape and is exactly sigma-invariant; sigma-symmetric inputs are "
              "returned unchanged; idempotent; mean preserved (sum re-indexing by flips and axis swaps, by induction). "
              "Tie: model evaluated at Qc vs. the real __call__ on every transform/option/shape class, exact on dyadic inputs.")
LEVEL_NOTE = ("Trusted: Coq kernel; exactness of float (x+y)/2 on the dyadic test inputs; numpy flip/swapaxes as the reading of "
              "'its reflection' in the independent predicate. Outside the domain (no singleton axis, non-square diagonal) the code raises "
              "or silently broadcasts to a larger shape; the model returns None there and the correspondence checks exactly that.")
TECHNIQUE = "Coq proof (generic field, induction on index ranges, ring/field/lia) + exact differential correspondence at Qc"
