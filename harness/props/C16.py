"""C16 — detector reductions are consistent with their spatial records."""
import itertools
import math

import numpy as np

from lib import core
from lib.core import qlit, lst

PID = "C16"
PROPS_FILE = "props/C16.v"
IMPL = "C16_impl.py"
COQ_HEADER = ("From Coq Require Import ZArith QArith Qcanon Bool.\n"
              "From FV Require Import base.Scalar base.Sums base.Util base.DetectorsBase model.Detectors.\n"
              "Local Open Scope bool_scope.")
SHARD = 2
RULE = ("each case = one placed scene (uniform or rectilinear dyadic grid, random integer/4 fields and materials) with "
        "~25 raw detectors per box (field/energy/Poynting/closed-surface/phasor variants, six face detectors); one "
        "update_detector_states call; model row == implementation row for every detector (tolerance 1e-9 of the row's "
        "max-abs; exact inputs); predicate = the cross-detector identities on the implementation outputs; "
        "non-trivial = box with >1 cell and non-zero fields")
EXHAUSTIVE = {"quick": False, "thorough": False}
ASSUMPTIONS = ["real-valued fields (use_complex_fields=False); diagonal (1 or 3 component) inverse materials; the 9-component "
               "tensor branch of compute_energy and EnergyDetector.as_slices are outside the model",
               "detectors are driven through update_detector_states with exact_interpolation=False (raw slice); co-location is C15",
               "phase factors exp(i w t) and float division are compared with tolerance 1e-9 (everything else is dyadic-exact)"]
TRUSTED = ["correspondence harness (exact rational literals of the inputs, Qc_close_abs 1e-9)",
           "phase oracle cos/sin evaluated by Python's libm on the driver-reported omega*t*dt"]
LEVEL_TEXT = ("Theorems (all region sizes, fields, grids): reduced field/phasor = cell-volume weighted mean and reduced energy = "
              "volume weighted sum of the spatial record; reduced Poynting flux = area-weighted sum of the spatial flux; '-' negates; "
              "single-component output = propagation component of the all-component output (repaired placement; the unchanged "
              "stack of unequal shapes is refuted for every region larger than one cell); closed surface = signed sum of the six "
              "face detectors, size-one axes cancel, inward = -outward; inverse phasor run subtracts exactly what the forward run adds, "
              "and the reduced phasor run is the weighted mean of the spatial run (induction over the step list).")
LEVEL_NOTE = ("Trusted: Coq kernel; correspondence of model/Detectors.v with the code on generated scenes (this check). Outside the model: "
              "tensor materials, as_slices, complex fields.")
TECHNIQUE = "Coq proof (ring, induction over sums and step lists, shape arithmetic by case analysis) + differential correspondence on placed scenes"

TOL = "(q 1 1000000000)"
COMPS = ["Ex", "Ey", "Ez", "Hx", "Hy", "Hz"]


# ----------------------------------------------------------------------------- generation
def rand_box(rng, shape, kind):
    box = []
    for a, n in enumerate(shape):
        if kind == "full":
            box.append([0, n])
        elif kind == "cell":
            lo = rng.randrange(n)
            box.append([lo, lo + 1])
        else:
            size = rng.randint(2, n) if n >= 2 else 1
            lo = rng.randint(0, n - size)
            box.append([lo, lo + size])
    if kind.startswith("plane"):
        a = int(kind[-1])
        lo = rng.randrange(shape[a])
        box[a] = [lo, lo + 1]
    return box


def dets_for_box(rng, b, box, T):
    n = [hi - lo for lo, hi in box]
    ones = [a for a in range(3) if n[a] == 1]
    D = []

    def add(tag, kind, bx=None, **opts):
        D.append({"name": f"b{b}_{tag}", "kind": kind, "box": bx or box, "opts": opts, "grp": b, "tag": tag})

    sub = rng.sample(COMPS, rng.randint(1, 5))
    add("f_sp", "field")
    add("f_rd", "field", reduce=True)
    add("f_sub_sp", "field", components=sub)
    add("f_sub_rd", "field", reduce=True, components=sub, interval=2)
    add("en_sp", "energy")
    add("en_rd", "energy", reduce=True)
    fixed = None if len(ones) == 1 and rng.random() < 0.5 else rng.randrange(3)
    for dr, tg in (("+", "p"), ("-", "m")):
        add(f"pf_{tg}_rd", "poynting", direction=dr, reduce=True, fixed_axis=fixed)
        add(f"pf_{tg}_sp", "poynting", direction=dr, reduce=False, fixed_axis=fixed)
        add(f"pfa_{tg}_rd", "poynting", direction=dr, reduce=True, keep_all=True, fixed_axis=fixed)
        add(f"pfa_{tg}_sp", "poynting", direction=dr, reduce=False, keep_all=True, fixed_axis=fixed)
    add("cs_out", "closed")
    add("cs_in", "closed", orientation="inward")
    add("cs_all", "closed", axes=[0, 1, 2])
    add("cs_perm", "closed", axes=rng.sample([0, 1, 2], rng.randint(1, 3)))
    for a in range(3):
        for side, pos in (("min", box[a][0]), ("max", box[a][1] - 1)):
            fb = [list(x) for x in box]
            fb[a] = [pos, pos + 1]
            add(f"face{a}{side}", "poynting", bx=fb, direction="+", reduce=True, fixed_axis=a)
    wl = [rng.choice([0.8e-6, 1e-6, 1.3e-6]) for _ in range(rng.randint(1, 2))]
    for inv, tg in ((False, "f"), (True, "i")):
        add(f"ph_{tg}_sp", "phasor", wavelengths=wl, inverse=inv, components=sub)
        add(f"ph_{tg}_rd", "phasor", wavelengths=wl, inverse=inv, components=sub, reduce=True)
    add("ph_pulse", "phasor", wavelengths=wl, mode="pulse", stride=2, reduce=True)
    add("ph_int", "phasor", wavelengths=wl, interval=2)
    add("pp_1", "phasor_poynting", wavelengths=wl, fixed_axis=fixed)
    add("pp_m", "phasor_poynting", wavelengths=wl, fixed_axis=fixed, direction="-", mode="pulse")
    add("pp_all", "phasor_poynting", wavelengths=wl, fixed_axis=fixed, keep_all=True)
    add("pp_i", "phasor_poynting", wavelengths=wl, fixed_axis=fixed, inverse=True)
    add("csp_f", "closed_phasor", wavelengths=wl)
    add("csp_i", "closed_phasor", wavelengths=wl, inverse=True)
    return D


def make_case(rng, nonuni, kinds):
    shape = [rng.randint(3, 5), rng.randint(3, 4), rng.randint(2, 4)]
    T = 5
    widths = [[rng.randint(3, 7) for _ in range(n)] for n in shape] if nonuni else None

    def arr(nc, lo, hi):
        return [[[[rng.randint(lo, hi) for _ in range(shape[2])] for _ in range(shape[1])] for _ in range(shape[0])] for _ in range(nc)]

    nce = rng.choice([1, 3])
    ncm = rng.choice([0, 1, 3])
    c = {"kind": "scene", "scene": {"shape": shape, "widths": widths, "T": T}, "t": rng.choice([0, 2, 4]),
         "E": arr(3, -8, 8), "H": arr(3, -8, 8), "ie": arr(nce, 1, 8), "im": arr(ncm, 2, 8) if ncm else None,
         "ph0": [rng.randint(-4, 4), rng.randint(-4, 4)], "dets": []}
    for b, k in enumerate(kinds):
        box = rand_box(rng, shape, k)
        c["dets"] += dets_for_box(rng, b, box, T)
        c.setdefault("boxes", []).append(box)
    return c


def gen_cases(ctx):
    rng = ctx.rng
    plan = ctx.pick([(False, ["box", "plane2"]), (True, ["box", "plane0"]), (True, ["full", "cell"]), (False, ["plane1", "box"])],
                    [(nu, ks) for nu in (False, True) for ks in (["box", "plane2"], ["box", "plane0"], ["full", "cell"], ["plane1", "box"],
                                                                  ["box", "box"], ["cell", "plane2"], ["full", "plane1"], ["box", "plane0"])])
    cases = [make_case(rng, nu, ks) for nu, ks in plan]
    # complex field storage (forced, as with a Bloch phase): the real-output detectors (energy, Poynting variants, closed surface) must satisfy
    # the same identities; predicate only (the Coq instance executes real fields)
    for nu in ctx.pick([True], [False, True]):
        c = make_case(rng, nu, ["box", "plane1"])
        sh = c["scene"]["shape"]
        c["scene"]["complex"] = True
        c["cplx"] = True
        c["Eim"] = [[[[rng.randint(-8, 8) for _ in range(sh[2])] for _ in range(sh[1])] for _ in range(sh[0])] for _ in range(3)]
        c["Him"] = [[[[rng.randint(-8, 8) for _ in range(sh[2])] for _ in range(sh[1])] for _ in range(sh[0])] for _ in range(3)]
        c["dets"] = [d for d in c["dets"] if d["kind"] in ("energy", "poynting", "closed")]
        cases.append(c)
    # malformed stream: a single-component detector whose propagation axis cannot be determined
    cases.append({"kind": "bad_axis", "scene": {"shape": [3, 3, 3], "widths": None, "T": 3}, "t": 0,
                  "E": [[[[1] * 3] * 3] * 3] * 3, "H": [[[[1] * 3] * 3] * 3] * 3, "ie": [[[[4] * 3] * 3] * 3], "im": None, "ph0": [0, 0],
                  "dets": [{"name": "bad", "kind": "poynting", "box": [[0, 1], [1, 2], [0, 3]], "opts": {"reduce": True}, "grp": 0, "tag": "bad"}],
                  "boxes": [[[0, 1], [1, 2], [0, 3]]]})
    return cases


def run_cases(ctx, cases):
    return core.run_impl_sharded(IMPL, cases, shard=min(4, len(cases)))


# ----------------------------------------------------------------------------- Coq expression
def qq(n):
    return f"(q ({int(n)}) 4)"


def l4(a):
    return lst(a, lambda x: lst(x, lambda y: lst(y, lambda z: lst(z, qq))))


def shp(t):
    return f"({t[0]}, {t[1]}, {t[2]})%nat"


def sel_of(opts):
    comps = opts.get("components") or COMPS
    return sorted(COMPS.index(c) for c in comps)


def n_on(T, interval, stride):
    act = [t for t in range(T) if t % interval == 0]
    return len(act[::max(1, stride)])


def fvals(hexes):
    return [float.fromhex(h) for h in hexes]


def close(model, vals):
    sc = max([abs(v) for v in vals] + [1e-300])
    return f"qlist_close_abs {TOL} {qlit(sc)} ({model}) {lst(vals, qlit)}"


def det_expr(case, d, o, dt):
    box, opts = d["box"], d["opts"]
    lo = shp([b[0] for b in box])
    n3 = [b[1] - b[0] for b in box]
    n = shp(n3)
    Er, Hr = f"(restrict {lo} E)", f"(restrict {lo} H)"
    vol = f"(cell_volume g {lo})"
    dims = f"{n3[0]} {n3[1]} {n3[2]}"
    k = d["kind"]
    if "error" in o:
        if k in ("poynting", "phasor_poynting") and opts.get("keep_all"):
            return f"(match pf_weights_all g {lo} {n} with None => true | Some _ => false end)"
        return "false"
    if k == "field":
        sel = sel_of(opts)
        sl = lst(sel, lambda s: f"{s}%nat")
        if opts.get("reduce"):
            return close(f"tab1 {len(sel)} (field_reduced {n} {vol} {sl} {Er} {Hr})", fvals(o["out"]))
        return close(f"tab4 {len(sel)} {dims} (field_spatial {sl} {Er} {Hr})", fvals(o["out"]))
    if k == "energy":
        nce = len(case["ie"])
        ncm = len(case["im"]) if case.get("im") is not None else 1
        en = f"(energy_spatial {nce} {ncm} {Er} {Hr} (restrict {lo} ie) (restrict {lo} im))"
        if opts.get("reduce"):
            return close(f"[energy_reduced {n} {vol} {en}]", fvals(o["out"]))
        return close(f"tab3 {dims} {en}", fvals(o["out"]))
    if k == "poynting":
        fx = "None" if opts.get("fixed_axis") is None else f"(Some {opts['fixed_axis']}%nat)"
        minus = "true" if opts.get("direction") == "-" else "false"
        if opts.get("keep_all"):
            if opts.get("reduce"):
                body = close(f"tab1 3 (pf_all_reduced {n} W {minus} {Er} {Hr})", fvals(o["out"]))
            else:
                body = close(f"tab4 3 {dims} (pf_all_spatial {minus} {Er} {Hr})", fvals(o["out"]))
            return f"(match pf_weights_all g {lo} {n} with Some W => {body} | None => false end)"
        if opts.get("reduce"):
            body = close(f"[pf_single_reduced {n} (pf_weights_single g {lo} {n} pa) pa {minus} {Er} {Hr}]", fvals(o["out"]))
        else:
            body = close(f"tab3 {dims} (pf_single_spatial pa {minus} {Er} {Hr})", fvals(o["out"]))
        return f"(match prop_axis {fx} {n} with Some pa => {body} | None => false end)"
    if k == "closed":
        ax = "None" if opts.get("axes") is None else "(Some " + lst(opts["axes"], lambda a: f"{a}%nat") + ")"
        inward = "true" if opts.get("orientation") == "inward" else "false"
        return close(f"[closed_net g {lo} {n} {ax} {inward} {Er} {Hr}]", fvals(o["out"]))
    if k == "phasor":
        sel = sel_of(opts)
        sl = lst(sel, lambda s: f"{s}%nat")
        nf = len(o["omega"])
        tp = case["t"] * dt
        e = "(fun f => nth f " + lst([f"(({qlit(math.cos(w * tp))}, {qlit(math.sin(w * tp))}) : Cx QcF)" for w in o["omega"]]) + " (c0 (K:=QcF)))"
        N = n_on(case["scene"]["T"], int(opts.get("interval", 1)), int(opts.get("stride", 1)))
        scale = f"(q 2 {N})" if opts.get("mode", "continuous") == "continuous" else f"(q {int(opts.get('stride', 1))} 1)"
        new = f"(phasor_new {sl} {Er} {Hr} {e} {scale} (q 1 1))"
        inv = "true" if opts.get("inverse") else "false"
        ph0 = f"(({qq(case['ph0'][0])}, {qq(case['ph0'][1])}) : Cx QcF)"
        if opts.get("reduce"):
            st = f"(phasor_update_reduced {n} {vol} {inv} (fun _ _ => {ph0}) {new})"
            return ("(" + close(f"flat_phr fst {nf} {len(sel)} {st}", fvals(o["re"])) + " && "
                    + close(f"flat_phr snd {nf} {len(sel)} {st}", fvals(o["im"])) + ")")
        st = f"(phasor_update_spatial {inv} (fun _ _ _ _ _ => {ph0}) {new})"
        return ("(" + close(f"flat_ph fst {nf} {len(sel)} {n} {st}", fvals(o["re"])) + " && "
                + close(f"flat_ph snd {nf} {len(sel)} {n} {st}", fvals(o["im"])) + ")")
    return None   # phasor_poynting values: predicate here, model in C17


def prelude(case):
    w = case["scene"]["widths"] or [[4] * n for n in case["scene"]["shape"]]
    # widths in metres = quarter-units * 2^-26
    def wl(a):
        return "(get1 (K:=QcF) " + lst(a, lambda v: f"(q ({int(v)}) 67108864)") + ")"
    im = l4(case["im"]) if case.get("im") is not None else None
    s = (f"let E := get4 (K:=QcF) {l4(case['E'])} in let H := get4 (K:=QcF) {l4(case['H'])} in "
         f"let ie := get4 (K:=QcF) {l4(case['ie'])} in "
         + (f"let im := get4 (K:=QcF) {im} in " if im else "let im : Vec QcF := (fun _ _ _ _ : nat => q 1 1) in ")
         + f"let g := mkGrid {wl(w[0])} {wl(w[1])} {wl(w[2])} in ")
    return s


def det_exprs(case, out):
    res = []
    for d in case["dets"]:
        o = out["dets"][d["name"]]
        e = det_expr(case, d, o, out["dt"])
        if e is not None:
            res.append((d["name"], e))
    return res


def coq_expr(case, out):
    if case["kind"] == "bad_axis":
        d = case["dets"][0]
        n = shp([b[1] - b[0] for b in d["box"]])
        ok = "crash" in out
        return f"(match prop_axis None {n} with None => {core.blit(ok)} | Some _ => {core.blit(not ok)} end)"
    if "crash" in out:
        return "false"
    if case.get("cplx"):
        return None
    parts = [e for _, e in det_exprs(case, out)]
    return prelude(case) + "(" + " && ".join(parts) + ")"


def show_model(case, out):
    if case["kind"] != "scene" or "crash" in out:
        return str(out)[:300]
    bad = []
    names = det_exprs(case, out)
    res, errs = core.coq_eval_shards(PID, COQ_HEADER, [prelude(case) + e for _, e in names], shard_size=12, tag="_show")
    for (nm, _), r in zip(names, res):
        if r is not True:
            bad.append(nm)
    return "detectors whose model row differs from the implementation: " + ", ".join(bad[:20]) + (" ; " + str(errs[:1]) if errs else "")


# ----------------------------------------------------------------------------- predicate (implementation only)
def arr(o, key="out", shape="oshape"):
    return np.asarray(fvals(o[key]), dtype=np.float64).reshape(o[shape])


def relerr(a, b):
    a, b = np.asarray(a), np.asarray(b)
    sc = max(float(np.abs(a).max(initial=0)), float(np.abs(b).max(initial=0)), 1e-300)
    return float(np.abs(a - b).max(initial=0)) / sc


def predicate(case, out):
    if case["kind"] == "bad_axis":
        return None if "crash" in out else ("bad-axis-accepted", "a plane detector with two size-one axes and no fixed axis recorded a value")
    if "crash" in out:
        return ("driver-crash", out["crash"])
    shape = case["scene"]["shape"]
    U4 = 2.0 ** -26
    w = [np.asarray(a, dtype=np.float64) * U4 for a in (case["scene"]["widths"] or [[4] * n for n in shape])]
    tol = 1e-9
    D = out["dets"]
    for b, box in enumerate(case["boxes"]):
        g = {d["tag"]: (d, D[d["name"]]) for d in case["dets"] if d["grp"] == b}
        sl = tuple(slice(lo, hi) for lo, hi in box)
        V = w[0][sl[0], None, None] * w[1][None, sl[1], None] * w[2][None, None, sl[2]]
        ncell = V.size
        tag = f"{'nonuni' if case['scene']['widths'] else 'uni'}"
        for nm, (d, o) in g.items():
            if "error" in o:
                if d["opts"].get("keep_all") and ncell > 1:
                    return ("keepall-unplaceable", f"{d['kind']} detector with keep_all_components=True on region {box} cannot be placed: {o['error']}")
                return (f"unplaceable-{d['kind']}", f"{nm} on {box}: {o['error']}")
            if not o["on_now"]:
                return ("gen-off", f"{nm} generated off at the probed step")

        def A(t, key="out", shape="oshape"):
            return arr(g[t][1], key, shape)

        def area(a):
            t = [x for x in range(3) if x != a]
            ar = w[t[0]][sl[t[0]], None] * w[t[1]][None, sl[t[1]]]
            s = [hi - lo for lo, hi in box]
            s[a] = 1
            return ar.reshape(s)

        checks = []
        cplx = bool(case.get("cplx"))
        # volume mean / sum
        if not cplx:
            checks.append(("field-mean", A("f_rd"), (A("f_sp") * V).sum(axis=(1, 2, 3)) / V.sum()))
            checks.append(("field-mean-subset", A("f_sub_rd"), (A("f_sub_sp") * V).sum(axis=(1, 2, 3)) / V.sum()))
            sub = sel_of(g["f_sub_sp"][0]["opts"])
            checks.append(("field-subset-order", A("f_sub_sp"), A("f_sp")[sub]))
        checks.append(("energy-sum", A("en_rd"), [(A("en_sp") * V).sum()]))
        # Poynting
        d0 = g["pf_p_rd"][0]
        fx = d0["opts"].get("fixed_axis")
        n3 = [hi - lo for lo, hi in box]
        pa = fx if fx is not None else n3.index(1)
        checks.append(("flux-area-sum", A("pf_p_rd"), [(A("pf_p_sp") * area(pa)).sum()]))
        checks.append(("minus-negates-reduced", A("pf_m_rd"), -A("pf_p_rd")))
        checks.append(("minus-negates-spatial", A("pf_m_sp"), -A("pf_p_sp")))
        checks.append(("single-is-component-spatial", A("pf_p_sp"), A("pfa_p_sp")[pa]))
        checks.append(("single-is-component-reduced", A("pf_p_rd"), A("pfa_p_rd")[pa:pa + 1]))
        checks.append(("all-minus-negates", A("pfa_m_sp"), -A("pfa_p_sp")))
        checks.append(("all-flux-area-sum", A("pfa_p_rd"), [(A("pfa_p_sp")[a] * area(a)).sum() for a in range(3)]))
        checks.append(("all-minus-negates-reduced", A("pfa_m_rd"), -A("pfa_p_rd")))
        # closed surface
        faces = sum(A(f"face{a}max") - A(f"face{a}min") for a in range(3))
        checks.append(("closed-eq-faces", A("cs_all"), faces))
        checks.append(("closed-default-axes", A("cs_out"), A("cs_all")))
        checks.append(("inward-negates", A("cs_in"), -A("cs_out")))
        pax = g["cs_perm"][0]["opts"]["axes"]
        checks.append(("closed-axes-subset", A("cs_perm"), sum(A(f"face{a}max") - A(f"face{a}min") for a in pax)))
        if cplx:
            for name, got, exp in checks:
                if np.shape(got) != np.shape(np.asarray(exp)) or relerr(got, exp) > tol:
                    return (f"complex-fields:{name}", f"box {box} ({tag} grid, complex field storage): {name}: got {np.asarray(got).ravel()[:6]} expected {np.asarray(exp).ravel()[:6]}")
            continue
        # phasors
        ph0 = complex(case["ph0"][0] / 4, case["ph0"][1] / 4)

        def P(t):
            return A(t, "re") + 1j * A(t, "im")
        for tg in ("f", "i"):
            sp, rd = P(f"ph_{tg}_sp")[0], P(f"ph_{tg}_rd")[0]
            checks.append((f"phasor-mean-{tg}", rd - ph0, ((sp - ph0) * V).sum(axis=(2, 3, 4)) / V.sum()))
        checks.append(("inverse-subtracts", P("ph_i_sp") - ph0, -(P("ph_f_sp") - ph0)))
        checks.append(("inverse-subtracts-reduced", P("ph_i_rd") - ph0, -(P("ph_f_rd") - ph0)))
        # phasor Poynting: single = component of all; minus/pulse variant = -2 * continuous single (0.5 factor only in continuous mode)
        f1, fa = A("pp_1", "flux", "fshape"), A("pp_all", "flux", "fshape")
        checks.append(("phasor-poynting-single-is-component", f1, fa[:, pa]))
        ph = P("pp_1")[0]
        S = np.real(np.cross(ph[:, :3], np.conj(ph[:, 3:]), axis=1))
        checks.append(("phasor-poynting-area-sum", fa, 0.5 * np.stack([(S[:, a] * area(a)).sum(axis=(1, 2, 3)) for a in range(3)], axis=1)))
        # inverse phasor Poynting detectors (plane and closed surface) subtract what the forward ones add; the closed-surface
        # detector stores exactly the boundary planes of the full phasor; its net flux is the signed face sum
        checks.append(("phasor-poynting-inverse-subtracts", P("pp_i") - ph0, -(P("pp_1") - ph0)))
        cf, ci = g["csp_f"][1], g["csp_i"][1]
        full = P("pp_1")[0]

        def face(o_, key):
            f_ = o_["faces"][key]
            return (np.asarray(fvals(f_["re"]), dtype=np.float64) + 1j * np.asarray(fvals(f_["im"]), dtype=np.float64)).reshape(f_["shape"])
        net = np.zeros(full.shape[0])
        for key in sorted(cf["faces"]):
            a_, side = int(key[len("phasor_axis")]), key.rsplit("_", 1)[1]
            idx = [slice(None)] * 5
            idx[a_ + 2] = slice(0, 1) if side == "min" else slice(-1, None)
            F, I = face(cf, key), face(ci, key)
            checks.append((f"closed-phasor-face-is-slice:{key}", F[0], full[tuple(idx)]))
            checks.append((f"closed-phasor-inverse-subtracts:{key}", I - ph0, -(F - ph0)))
            Sf = np.real(np.cross(F[0][:, :3], np.conj(F[0][:, 3:]), axis=1))[:, a_]
            net = net + (1.0 if side == "max" else -1.0) * (Sf * area(a_)).sum(axis=(1, 2, 3))
        checks.append(("closed-phasor-net-flux", np.asarray(fvals(cf["net"]), dtype=np.float64), 0.5 * net))
        for name, got, exp in checks:
            if np.shape(got) != np.shape(np.asarray(exp)) or relerr(got, exp) > tol:
                return (f"{name}", f"box {box} ({tag} grid): {name}: got {np.asarray(got).ravel()[:6]} expected {np.asarray(exp).ravel()[:6]}")
    return None


def nontrivial(case, out):
    if case["kind"] != "scene" or "crash" in out:
        return False
    return any(np.prod([hi - lo for lo, hi in b]) > 1 for b in case["boxes"])


def classify(case, out):
    if case["kind"] != "scene":
        return case["kind"]
    return ("nonuniform" if case["scene"]["widths"] else "uniform") + "-" + "x".join(str(s) for s in case["scene"]["shape"])


def search(ctx, broken):
    """directed search: small scenes with fresh seeds; return failing predicate inputs"""
    found, tried = [], 0
    for i in range(6):
        c = make_case(ctx.rng, i % 2 == 1, ["box", f"plane{i % 3}"])
        o = run_cases(ctx, [c])[0]
        tried += 1
        r = predicate(c, o)
        if r:
            found.append((c, o, r[0], r[1]))
            break
    return found, tried
