"""C07 — stopping conditions stop exactly where documented."""
from lib import core
from lib.core import zlit, lst, blit

PID = "C07"
PROPS_FILE = "props/C07.v"
IMPL = "C07_impl.py"
COQ_HEADER = "From Coq Require Import ZArith List Bool. Import ListNotations.\nFrom FV Require Import base.Util model.Loop model.Stop."
RULE = ("periodic box with a CW dipole and a volume-reduced energy detector (float32 stream): run_fdtd with EnergyThresholdCondition and "
        "DetectorConvergenceCondition over a grid of thresholds (never / always / mid-run), min_steps and max_steps (below, between, above the total, "
        "max < min); oracle traces (energy<thr, FFT verdict per step) come from a plain stepped run; the model predicts the stop step; "
        "non-trivial = a run that stops strictly between 0 and the total")
ASSUMPTIONS = ["'energy < threshold' and the FFT convergence verdict are oracle boolean traces evaluated on the implementation's own states",
               "float32 stream only (the detector condition raises under jax_enable_x64: int32/int64 mix in dynamic_slice — observation, not claimed)"]
TRUSTED = ["correspondence on stop steps (exact Z)"]
LEVEL_TEXT = ("Theorems (any state type and step function): a run with a stopping condition equals a plain run of k steps where k is the first step at "
              "which the condition reports stop, k <= total; for the energy and detector-convergence conditions k <= min(max_steps, total) and an "
              "earlier stop happens only at k >= min_steps with the verdict true, no earlier verdict having been true from min_steps on. Tie: stop steps of run_fdtd vs the model for a parameter grid.")
LEVEL_NOTE = "Control flow is proved; the float comparison and the FFT distance are oracles. The snapshot's detector condition (max_steps unread) is kept as C07_detector_src_old_refuted."
TECHNIQUE = "Coq proof (first-stop characterisation of a bounded while loop) + differential stop steps"


def gen_cases(ctx):
    cases = []
    for T, per in ctx.pick([(40, 6)], [(40, 6), (64, 8), (30, 5)]):
        pp = 2
        base = (pp + 1) * per
        runs = []
        for thr in (0.0, 1e9):       # never converged / always converged
            runs += [{"kind": "detector", "thr": thr}, {"kind": "detector", "thr": thr, "mx": T - 10}, {"kind": "detector", "thr": thr, "mn": base + 5, "mx": T - 4},
                     {"kind": "detector", "thr": thr, "mn": base + 7}, {"kind": "detector", "thr": thr, "mx": T + 20}, {"kind": "detector", "thr": thr, "mn": base + 9, "mx": base + 2},
                     {"kind": "detector", "thr": thr, "mx": 0}]
        for thr in (1e-30, 1e30, 1e-9, 1e-7):
            runs += [{"kind": "energy", "thr": thr}, {"kind": "energy", "thr": thr, "mx": 17}, {"kind": "energy", "thr": thr, "mn": 9},
                     {"kind": "energy", "thr": thr, "mn": 9, "mx": 5}, {"kind": "energy", "thr": thr, "mn": 0, "mx": T + 7},
                     {"kind": "energy", "thr": thr, "mn": 0}, {"kind": "energy", "thr": thr, "mx": 0}, {"kind": "energy", "thr": thr, "mn": 5, "mx": 0}]
        if not ctx.quick:
            for _ in range(10):
                kind = ctx.rng.choice(["energy", "detector"])
                # (EnergyThresholdCondition rejects a non-positive threshold at construction, by design)
                runs.append({"kind": kind, "thr": ctx.rng.choice([1e-30, 1e-8, 1e-3, 1e9] if kind == "energy" else [0.0, 1e-8, 1e-3, 1e9]),
                             "mn": ctx.rng.randint(base, T), "mx": ctx.rng.randint(1, T + 10)})
        spec = {"shape": [6, 6, 6], "spacing": 5e-8, "steps": T, "bt": {f: "periodic" for f in ("min_x", "max_x", "min_y", "max_y", "min_z", "max_z")},
                "sources": [{"kind": "dipole", "cell": [2, 2, 2], "pol": 0, "switch": {"start_time": 0, "end_time": T // 3} if T != 64 else None}],
                "detectors": [{"kind": "energy", "box": [[3, 5], [3, 5], [3, 5]], "name": "det", "opts": {"reduce_volume": True}}]}
        cases.append({"spec": spec, "period_steps": per, "prev_periods": pp, "runs": runs})
    return cases


def run_cases(ctx, cases):
    return core.run_impl_sharded(IMPL, cases, shard=len(cases), timeout=2400)


def _resolved(case, out, r):
    """(min_steps, max_steps) as the documentation resolves them from what the USER passed (an explicit 0 is a bound),
    as Coq option literals + defaults; never taken from the implementation's own setup()."""
    T = out["T"]
    d_mn = round(0.1 * T) if r["r"]["kind"] == "energy" else (case["prev_periods"] + 1) * case["period_steps"]
    g = r["r"]
    return (g["mn"] if g.get("mn") is not None else d_mn, g["mx"] if g.get("mx") is not None else T, d_mn, T)


def _opt(v):
    return "None" if v is None else f"(Some {zlit(v)})"


def coq_expr(case, out):
    if "error" in out:
        return "false"
    T = out["T"]
    parts = []
    for r in out["runs"]:
        if "error" in r:
            continue
        tr = f"(fun s : Z => nth (Z.to_nat s) {lst(r['trace'], blit)} false)"
        _, _, d_mn, d_mx = _resolved(case, out, r)
        mn = f"(setup_bound {_opt(r['r'].get('mn'))} {zlit(d_mn)})"
        mx = f"(setup_bound {_opt(r['r'].get('mx'))} {zlit(d_mx)})"
        cond = (f"cond_energy Z (fun s => s) {mn} {mx} {tr}" if r["r"]["kind"] == "energy"
                else f"cond_detector Z (fun s => s) {mn} {mx} {tr}")
        parts.append(f"Z.eqb (run_until Z Z.succ {zlit(T)} ({cond}) 0%Z) {zlit(r['t'])}")
    return "(" + " && ".join(parts or ["false"]) + ")%bool"


def predicate(case, out):
    if "error" in out:
        return ("driver-error", out["error"] + out.get("trace", "")[-300:])
    T = out["T"]
    for r in out["runs"]:
        if "error" in r:
            if "min_steps must be larger" in r["error"] or "greater than the number of time steps" in r["error"]:
                continue
            return ("run-error:" + str(r["r"]), r["error"])
        t, tr = r["t"], r["trace"]
        mn, mx, _, _ = _resolved(case, out, r)
        if (r["mn"], r["mx"]) != (mn, mx):
            return (f"setup-bounds:{r['r']['kind']};given=({r['r'].get('mn')},{r['r'].get('mx')})",
                    f"setup() resolved (min_steps, max_steps) to ({r['mn']}, {r['mx']}); the user's values / documented defaults give ({mn}, {mx})")
        key = f"{r['r']['kind']};thr={r['r']['thr']};mn={mn};mx={mx};T={T}"
        if t > min(max(mx, 0), T):
            return ("stops-late:" + key, f"stopped at {t} > min(max_steps={mx}, total={T})")
        if t < min(max(mx, 0), T) and (t < mn or not tr[t]):
            return ("stops-early:" + key, f"stopped at {t} although min_steps={mn}, verdict[{t}]={tr[t]}")
        first = next((j for j in range(T + 1) if j >= mn and tr[j]), None)
        if first is not None and first < t:
            return ("missed-stop:" + key, f"condition reported stop at {first} but the run went on to {t}")
        if r["dE"] > 1e-5 or r["dH"] > 1e-5:
            return ("state-differs:" + key, f"state at stop differs from plain run of {t} steps: {r['dE']:.2e} {r['dH']:.2e}")
    return None


def nontrivial(case, out):
    return "error" not in out and any("t" in r and 0 < r["t"] < out["T"] for r in out["runs"])


def classify(case, out):
    return f"T={out.get('T')}|runs={len(case['runs'])}"
