"""C23 — fabrication clean-up keeps exactly the connected material
(RemoveFloatingMaterial / ConnectHolesAndStructures; binary_transform.py flood fills)."""
import collections
import json

from lib import core
from lib.core import blit, lst3, natlit

PID = "C23"
PROPS_FILE = "props/C23.v"
IMPL = "C23_impl.py"
COQ_HEADER = "From FV Require Import base.Util base.MorphBase model.Morph."
SHARD = 6
RULE = ("binary designs on boxes 1..7 per axis (random densities; serpentines, spirals, serpentine air channels, thin boxes, "
        "one-layer designs); for each: compute_polymer_connection / compute_air_connection / remove_floating_polymer / "
        "connect_holes_and_structures and the two transform modules; model output == implementation output (exact), and the "
        "implementation output is checked against an independent BFS; non-trivial = design has both material and background")
EXHAUSTIVE = {"quick": False, "thorough": False}
ASSUMPTIONS = ["jax.scipy.signal.convolve2d on zero-padded input == zero-fill n4/n8 dilation (checked by the correspondence)",
               "jax static out-of-range reads clamp, out-of-range .at[].set is dropped (air pass of connect_holes_and_structures, modelled)",
               "the theorems are about the code with fixes/C23.patch applied; the unpatched code is refuted (C23_remove_floating_refuted)"]
TRUSTED = ["correspondence harness (exact boolean comparison of whole arrays)", "BFS oracle in harness/props/C23.py (predicate)"]

FN = {"polymer": "polymer_connection", "air": "air_connection", "remove": "remove_floating", "connect": "connect_holes",
      "remove_module": "remove_floating", "connect_module": "connect_holes"}


# ----------------------------------------------------------------------------- designs
def zeros(shape):
    return [[[0] * shape[2] for _ in range(shape[1])] for _ in range(shape[0])]


def rand_design(rng, shape, p):
    return [[[int(rng.random() < p) for _ in range(shape[2])] for _ in range(shape[1])] for _ in range(shape[0])]


def serpentine(n, nz=3, layer=1):
    """one seed cell under a serpentine that fills layer `layer` (connected, long winding path)"""
    m = zeros((n, n, nz))
    for k in range(layer + 1):
        m[0][0][k] = 1
    for r in range(0, n, 2):
        for c in range(n):
            m[r][c][layer] = 1
        if r + 1 < n:
            m[r + 1][n - 1 if (r // 2) % 2 == 0 else 0][layer] = 1
    return m


def spiral(n, nz=2):
    """inward square spiral (one-cell wall, one-cell gaps) in the top layer hanging on the bottom cell (0,0,0)"""
    m = zeros((n, n, nz))
    vis = {(0, 0)}
    i = j = 0
    di, dj = 0, 1
    while True:
        moved = False
        for _ in range(2):
            ni, nj = i + di, j + dj
            ok = 0 <= ni < n and 0 <= nj < n and (ni, nj) not in vis and (i + 2 * di, j + 2 * dj) not in vis
            ok = ok and (ni + dj, nj - di) not in vis and (ni - dj, nj + di) not in vis
            if ok:
                i, j = ni, nj
                vis.add((i, j))
                moved = True
                break
            di, dj = dj, -di
        if not moved:
            break
    for (a, b) in vis:
        m[a][b][nz - 1] = 1
    for k in range(nz):
        m[0][0][k] = 1
    return m


def staircase(n, ny=2):
    """one bottom cell under a z,x,z,x,... staircase: a sweep (xy, xz, yz dilation) advances it by a single cell at a time"""
    m = zeros((n + 1, ny, n + 1))
    x = z = 0
    m[0][0][0] = 1
    for step in range(2 * n):
        if step % 2 == 0:
            z += 1
        else:
            x += 1
        if x > n or z > n:
            break
        m[x][0][z] = 1
    return m


def hook():
    """full bottom layer, a column (0,0,1..3) and one cell (1,0,3) beside its top: the second sweep adds exactly one cell
    and the flood fill is not finished yet (catches loops that stop on 'almost no change')"""
    m = zeros((3, 2, 4))
    for i in range(3):
        for j in range(2):
            m[i][j][0] = 1
    for z in (1, 2, 3):
        m[0][0][z] = 1
    m[1][0][3] = 1
    return m


# designs in which the air pass of connect_holes_and_structures cuts material loose (the final removal is needed)
DETACHED = [
    [[[1, 1, 1], [1, 0, 0], [0, 1, 1]], [[1, 0, 0], [0, 1, 1], [1, 1, 0]], [[0, 1, 1], [1, 0, 1], [0, 0, 1]], [[1, 0, 0], [1, 1, 0], [1, 0, 0]]],
    [[[0, 1, 1], [0, 1, 1], [1, 1, 0], [0, 1, 1]], [[1, 0, 1], [1, 0, 0], [0, 1, 1], [1, 0, 0]], [[1, 0, 1], [1, 1, 1], [1, 1, 0], [1, 0, 1]],
     [[1, 1, 0], [0, 1, 0], [1, 1, 1], [1, 1, 0]]],
]


def invert(m):
    return [[[1 - v for v in r] for r in p] for p in m]


def air_channel(n):
    """solid block with a serpentine background channel in the bottom layer that opens at one side face"""
    s = serpentine(n, nz=2, layer=0)
    m = invert(s)
    for i in range(n):
        for j in range(n):
            m[i][j][1] = 1
    return m


def shape_of(m):
    return [len(m), len(m[0]), len(m[0][0])]


REV = [0]


def case(kind, m):
    c = {"kind": kind, "shape": shape_of(m), "m": m}
    if kind.endswith("_module"):
        REV[0] += 1
        if REV[0] % 3 != 2:
            c["rev_dict"] = True      # two of three module cases: materials dict inserted in descending-permittivity order
    return c


def gen_cases(ctx):
    rng = ctx.rng
    cases = []
    corpus = core.VERIF / "harness" / "corpus" / "C23.json"
    if corpus.exists():
        cases += json.loads(corpus.read_text())
    # adversarial: long winding paths
    for n in ctx.pick([3, 5], [3, 4, 5, 7, 9]):
        s = serpentine(n)
        cases += [case("remove", s), case("air", invert(s)), case("remove_module", s), case("connect", s), case("remove", spiral(n, 3))]
        cases += [case("air", air_channel(n)), case("connect", air_channel(n))]
        if not ctx.quick:
            cases += [case("polymer", s), case("remove", spiral(n))]
    if ctx.quick:
        cases += [case("remove", serpentine(7))]
    # paths much longer than the box diameter (path length ~ n^2/2 against nx+ny+nz): a sweep count bounded by the box size is not enough
    cases += [case("remove", serpentine(12)), case("remove_module", serpentine(12)), case("remove", spiral(13, 3))]
    if not ctx.quick:
        cases += [case("connect", serpentine(12)), case("air", invert(serpentine(11))), case("remove", serpentine(14))]
    for n in ctx.pick([3], [2, 3, 5]):
        cases += [case("remove", staircase(n))]
    cases += [case("remove", hook()), case("polymer", hook())] + [case("connect", m) for m in DETACHED]
    # one-layer and thin boxes (crashed / lost everything before the fix)
    for shape in ctx.pick([(4, 5, 1), (2, 4, 4)], [(4, 5, 1), (1, 1, 1), (2, 4, 4), (1, 5, 4), (4, 4, 2), (5, 2, 5), (6, 1, 1), (1, 1, 6)]):
        for _ in range(2):
            m = rand_design(rng, shape, rng.uniform(0.4, 0.8))
            cases += [case("remove", m), case("air", m), case("connect", m)]
        cases.append(case("remove_module", rand_design(rng, shape, 0.7)))
    # random designs, several per shape (the driver jit-compiles once per (kind, shape))
    nshape, per = ctx.pick((3, 4), (14, 10))
    for _ in range(nshape):
        shape = [rng.randint(2, ctx.pick(5, 7)) for _ in range(3)]
        for _ in range(per):
            m = rand_design(rng, shape, rng.uniform(0.25, 0.8))
            cases += [case("remove", m), case("air", m), case("connect", m)]
        cases += [case("polymer", rand_design(rng, shape, 0.5)), case("connect_module", rand_design(rng, shape, 0.55)),
                  case("remove_module", rand_design(rng, shape, 0.55))]
    return cases


def run_cases(ctx, cases):
    # keep equal (kind, shape) in the same driver process (jit cache)
    order = sorted(range(len(cases)), key=lambda i: (cases[i]["shape"], cases[i]["kind"]))
    n = 4
    chunks = [[] for _ in range(n)]
    load = [0] * n
    groups = collections.OrderedDict()
    for i in order:
        groups.setdefault((tuple(cases[i]["shape"]), cases[i]["kind"]), []).append(i)
    for key, idx in sorted(groups.items(), key=lambda kv: -len(kv[1])):
        j = load.index(min(load))
        chunks[j] += idx
        load[j] += 3 + len(idx) * (0.2 if "connect" not in key[1] else 0.4) + (6 if "connect" in key[1] else 0)
    from concurrent.futures import ThreadPoolExecutor
    with ThreadPoolExecutor(n) as ex:
        res = list(ex.map(lambda ch: core.run_impl(IMPL, {"cases": [cases[i] for i in ch]})["outs"] if ch else [], chunks))
    outs = [None] * len(cases)
    for ch, r in zip(chunks, res):
        for i, o in zip(ch, r):
            outs[i] = o
    return outs


def a3(m):
    return lst3(m, blit)


def coq_expr(case, out):
    if "error" in out:
        return "false"  # the model of the repaired code never fails
    s = " ".join(natlit(v) for v in case["shape"])
    return f"match {FN[case['kind']]} {s} {a3(case['m'])} with Some r => arr3_eqb r {a3(out['out'])} | None => false end"


_SHOWN = [0]


def show_model(case, out):
    _SHOWN[0] += 1
    if _SHOWN[0] > 2:
        return "(omitted; see the first mismatching cases)"
    s = " ".join(natlit(v) for v in case["shape"])
    return core.coq_eval_text(PID, COQ_HEADER, f"{FN[case['kind']]} {s} {a3(case['m'])}")


# ----------------------------------------------------------------------------- independent oracle
def flood(mask, seeds):
    n0, n1, n2 = len(mask), len(mask[0]), len(mask[0][0])
    seen = set()
    dq = collections.deque()
    for s in seeds:
        if mask[s[0]][s[1]][s[2]] and s not in seen:
            seen.add(s)
            dq.append(s)
    while dq:
        i, j, k = dq.popleft()
        for d in ((1, 0, 0), (-1, 0, 0), (0, 1, 0), (0, -1, 0), (0, 0, 1), (0, 0, -1)):
            a, b, c = i + d[0], j + d[1], k + d[2]
            if 0 <= a < n0 and 0 <= b < n1 and 0 <= c < n2 and mask[a][b][c] and (a, b, c) not in seen:
                seen.add((a, b, c))
                dq.append((a, b, c))
    return seen


def bottom_seeds(shape):
    return [(i, j, 0) for i in range(shape[0]) for j in range(shape[1])]


def side_seeds(shape):
    n0, n1, n2 = shape
    return [(i, j, k) for i in range(n0) for j in range(n1) for k in range(n2) if k == n2 - 1 or i in (0, n0 - 1) or j in (0, n1 - 1)]


def cells(shape):
    return [(i, j, k) for i in range(shape[0]) for j in range(shape[1]) for k in range(shape[2])]


def key_of(case, what):
    """coarse, stable key: operation + failure class (one VIOLATION line per class, first input of the class is the replay)"""
    return f"{case['kind'].replace('_module', '')}-{what}"


def predicate(case, out):
    shape, m, kind = case["shape"], case["m"], case["kind"]
    if "error" in out:
        return (key_of(case, "error"), f"{kind} on a {shape} design fails: {out['error']}")
    o = out["out"]
    if kind in ("polymer", "remove", "remove_module"):
        conn = flood(m, bottom_seeds(shape))
        for (i, j, k) in cells(shape):
            exp = 1 if (m[i][j][k] and (i, j, k) in conn) else 0
            if o[i][j][k] != exp:
                what = "connected material deleted" if exp else "cell kept/marked although not connected material"
                cls = "one-layer-design-emptied" if (exp and shape[2] == 1) else ("connected-material-deleted" if exp else "unconnected-cell-kept")
                return (key_of(case, cls), f"{kind}: cell {(i, j, k)} is {o[i][j][k]}, expected {exp} ({what}); "
                                      f"{sum(map(sum, map(lambda p: map(sum, p), m)))} material cells, {len(conn)} connected to the bottom layer")
        return None
    if kind == "air":
        inv = invert(m)
        conn = flood(inv, side_seeds(shape))
        for (i, j, k) in cells(shape):
            exp = 1 if (i, j, k) in conn else 0
            if o[i][j][k] != exp:
                return (key_of(case, "connected-background-missed" if exp else "unconnected-background-marked"), f"air connection: cell {(i, j, k)} is {o[i][j][k]}, expected {exp}")
        return None
    # connect / connect_module: no floating material, no enclosed background
    conn = flood(o, bottom_seeds(shape))
    fl = [c for c in cells(shape) if o[c[0]][c[1]][c[2]] and c not in conn]
    if fl:
        return (key_of(case, "floating-material-remains"), f"{kind}: floating material remains at {fl[:4]}")
    ac = flood(invert(o), side_seeds(shape))
    en = [c for c in cells(shape) if not o[c[0]][c[1]][c[2]] and c not in ac]
    if en:
        return (key_of(case, "enclosed-background-remains"), f"{kind}: background enclosed away from the sides and the top at {en[:4]}")
    return None


def nontrivial(case, out):
    tot = sum(v for p in case["m"] for r in p for v in r)
    return 0 < tot < case["shape"][0] * case["shape"][1] * case["shape"][2]


def classify(case, out):
    return case["kind"] + ("/thin" if min(case["shape"]) <= 2 else "")


def search(ctx, broken):
    """directed search when a proof/correspondence broke without a failing input: longer paths, more random designs"""
    rng = ctx.rng
    cases = []
    for n in (9, 11):
        cases += [case("remove", serpentine(n)), case("air", air_channel(n)), case("connect", air_channel(n)), case("remove", spiral(n))]
    for _ in range(6):
        shape = [rng.randint(3, 7) for _ in range(3)]
        for _ in range(6):
            m = rand_design(rng, shape, rng.uniform(0.3, 0.7))
            cases += [case("remove", m), case("connect", m), case("air", m)]
    outs = run_cases(ctx, cases)
    found = []
    for c, o in zip(cases, outs):
        r = predicate(c, o)
        if r:
            found.append((c, o, r[0], r[1]))
    return found, len(cases)


LEVEL_TEXT = ("Theorems (all box extents, all designs) about the repaired code: the while-loop flood fill terminates and marks exactly the cells "
              "face-connected to the bottom layer (material) resp. to the side faces/top (background); remove_floating keeps exactly the "
              "connected material; connect_holes_and_structures leaves no floating material. Refuted for the unpatched code (3x3x3 "
              "serpentine, one-layer design, ValueError on thin boxes). 'No enclosed background' only bounded-exhaustively "
              "(every design of boxes <= 8 cells, 2x2x3 and permutations, and a 9216-design 3x3x2 slab family). Correspondence: whole-array "
              "equality of model and implementation on random and adversarial designs.")
LEVEL_NOTE = ("Partial: absence of enclosed background after connect_holes_and_structures is proved only for the stated bounded families "
              "(beyond them it is checked by the BFS predicate on every run); termination of the 2-D spreads inside connect_slice is not proved "
              "in general (the model returns None on fuel exhaustion; theorem C23_connect_no_floating is conditional on a result). "
              "Trusted: Coq kernel, correspondence harness.")
TECHNIQUE = "Coq proof (induction on reachability, monotone-iteration/counting termination argument, vm_compute bounded exhaustion) + differential correspondence + BFS oracle"
