"""C02 — one backward step exactly undoes one forward step."""
import numpy as np
from lib import core, yee_coq as Y
from props import C01

PID = "C02"
PROPS_FILE = "props/C02.v"
COQ_HEADER = Y.HEADER
SHARD = 1
RULE = ("(a) hand-built containers (all PML-free boundary pairings, uniform/non-uniform, iso/diag, electric+magnetic conductivity, Bloch) and "
        "(b) placed scenes with plane/Gaussian/dipole/magnetic-dipole sources under random on/off switches: n forward steps then n backward "
        "steps through fdtdx forward()/backward(); every implementation step is compared with the Coq model step (source injections are oracle "
        "arrays obtained from the sources' own update on a zero field); non-trivial = non-zero fields")
ASSUMPTIONS = ["source injections enter the model as per-step additive oracle arrays taken from the implementation (update_E/update_H on a zero field, same gating calls)",
               "exact-arithmetic semantics; round-off is outside the model",
               "fully anisotropic (9-component) lossless media are covered by the implementation-level round-trip predicate only, not by the model/theorem"]
TRUSTED = ["correspondence harness: float -> exact rational; per-step comparison, tolerance 1e-9*max|field| outside the dyadic regime"]
LEVEL_TEXT = ("Theorem for every PML-free scene of the model (any grid, ghost factors, widths, masks, iso/diag materials with sigma_E and sigma_H "
              "such that 1+-f <> 0, arbitrary source injections): backward(forward s) = s on E, H (every in-box cell) and the step counter, for "
              "every wall-compatible s; forward preserves wall compatibility. The fully anisotropic lossless tiers (9-component inverse permittivity and / or "
              "permeability, symmetric or not; four-point co-location averages with ghost reads; model/YeeFull.v) have the same theorem "
              "(C02_full_tensor_backward_forward_id). Tie: per-step correspondence of forward and backward on hand-built (incl. 9-component, bit-exact) and placed scenes.")
LEVEL_NOTE = ("The 9-component model covers uniform and stretched grids (width-weighted co-location averages; one definition, equal to the four-point mean when all widths agree); "
              "placed scenes with full tensors are compared by the predicate. Sources are additive oracles.")
TECHNIQUE = "Coq proof (per-cell field identities + in-box extensionality of the curl) + vm_compute correspondence over Qc"

PER = {"min_x": "periodic", "max_x": "periodic", "min_y": "periodic", "max_y": "periodic"}


def placed_case(rng, quick, i):
    T = 2 if quick else 3
    zkind = rng.choice([("pec", "pec"), ("pmc", "pec"), ("pec", "pmc"), ("periodic", "periodic")])
    bt = dict(PER, min_z=zkind[0], max_z=zkind[1])
    if rng.random() < 0.4:
        bt["min_x"], bt["max_x"] = rng.choice([("pec", "pmc"), ("pmc", "pmc")])
    def sw():
        r = rng.random()
        if r < 0.3:
            return None
        if r < 0.6:
            return {"fixed": sorted(rng.sample(range(T), rng.randint(1, T)))}
        return {"start_time": rng.randint(0, 1), "end_time": rng.randint(1, T), "interval": rng.choice([1, 1, 2])}
    srcs = [{"kind": "plane", "axis": 2, "pos": 2, "dir": rng.choice("+-"), "pol": [1.0, rng.choice([0.0, 0.5]), 0.0], "switch": sw()},
            {"kind": "dipole", "cell": [2, 1, 3], "pol": rng.randint(0, 2), "az": 20.0, "switch": sw()},
            {"kind": "dipole", "cell": [1, 2, 2], "pol": rng.randint(0, 2), "mag": True, "switch": sw()}]
    if i % 2:
        srcs[0] = {"kind": "gauss", "axis": 0, "pos": 2, "dir": rng.choice("+-"), "pol": [0.0, 0.0, 1.0], "radius": 1.5e-7, "switch": sw(),
                   "profile": {"kind": "pulse"}}
    spec = {"shape": [4, 4, 5] if quick else [5, 4, 5], "spacing": 5e-8, "courant": "exact_half", "steps": T, "bt": bt, "sources": srcs, "init": {"seed": rng.randint(0, 10**6), "kind": "int4"},
            "mats": {"seed": rng.randint(0, 10**6), "ncomp": rng.choice([1, 3]), "pow2": True,
                     "sigma_e": rng.choice([0, 0, 2e-3]), "sigma_m": rng.choice([0, 0, 2e2])}}
    if i % 3 == 2:   # fully anisotropic lossless block: predicate only
        spec["blocks"] = [{"box": [[1, 3], [1, 3], [1, 4]], "eps": [2.0, 0.3, 0.1, 0.3, 2.5, 0.2, 0.1, 0.2, 3.0]}]
        spec["mats"] = None
        spec["sources"] = srcs[1:]
    return {"kind": "placed", "spec": spec, "steps": T, "back": T, "shape": spec["shape"], "bt": bt}


def gen_cases(ctx):
    n_hand, n_placed = ctx.pick((6, 4), (48, 24))
    cases = []
    for i in range(n_hand):
        c = C01.rand_case(ctx.rng, ctx.quick, i)
        c.update(kind="hand", steps=2, back=2)
        if i % 4 == 2:
            c["sigma"] = "EH"
        if i % 4 == 3:      # fully anisotropic lossless tier: 9-component (non-symmetric) inverse permittivity, every other time also permeability
            c.pop("edges", None)
            c.pop("sigma", None)
            c.update(full_eps=True, full_mu=bool((i // 4) % 2), pow2=True)
        cases.append(c)
    # 9-component tiers on stretched grids (width-weighted co-location averages of model/YeeFull.v; compared to 1e-9, the weights are not dyadic)
    for i in range(ctx.pick(2, 8)):
        c = C01.rand_case(ctx.rng, ctx.quick, 4 * i + 1)
        rng = ctx.rng
        c["edges"] = [list(np.concatenate([[0.0], np.cumsum([rng.choice([0.75, 1.0, 1.5, 2.0]) for _ in range(n)])]) * 2.0 ** -23) for n in c["shape"]]
        c.pop("sigma", None)
        c.update(kind="hand", steps=2, back=2, full_eps=(i % 3 != 1), full_mu=(i % 3 != 0), pow2=True, stretched9=True)
        cases.append(c)
    for i in range(n_placed):
        cases.append(placed_case(ctx.rng, ctx.quick, i))
    return cases


def run_cases(ctx, cases):
    hand = [c for c in cases if c["kind"] == "hand"]
    placed = [c for c in cases if c["kind"] == "placed"]
    oh = core.run_impl_sharded("yee_impl.py", hand, jobs=6)
    op = core.run_impl_sharded("scene_impl.py", placed, jobs=6)
    ih, ip = iter(oh), iter(op)
    return [next(ih) if c["kind"] == "hand" else next(ip) for c in cases]


def modelled(case, out):
    return "error" not in out and (out.get("ncomp_eps", 1) != 9 or case["kind"] == "hand")


def coq_expr(case, out):
    if "error" in out:
        return "false"
    if not modelled(case, out):
        return None
    inj = Y.inj_term(case["shape"], out["injE"], out["injH"]) if case["kind"] == "placed" else None
    sc = Y.scene_term(case, out, inj=inj)
    ex = Y.exact_ok(case) if case["kind"] == "hand" else False
    scale = max(Y.maxabs(out), 1.0)
    st = out["states"]
    bk = [st[-1]] + out["back"]
    if case["kind"] == "hand" and (out.get("ieps9") or out.get("imu9")):      # 9-component tiers: model/YeeFull.v
        steps = [("forward_fullX", a, b) for a, b in zip(st, st[1:])] + [("backward_fullX", a, b) for a, b in zip(bk, bk[1:])]
        return Y.full_steps_expr(case["shape"], sc, out, steps, ex, scale=scale)
    steps = [("forwardX", a, b) for a, b in zip(st, st[1:])] + [("backwardX", a, b) for a, b in zip(bk, bk[1:])]
    return Y.steps_expr(case["shape"], sc, steps, ex, scale=scale)


def predicate(case, out):
    if "error" in out:
        return ("driver-error", out["error"])
    st = out["states"]
    scale = max(Y.maxabs(out), 1e-300)
    n = len(st) - 1
    for i, b in enumerate(out["back"]):
        ref = st[n - 1 - i]
        err = max(float(np.abs(Y.np_fields(b[f]) - Y.np_fields(ref[f])).max()) for f in ("E", "H"))
        if b["t"] != ref["t"] or err > 1e-9 * scale:
            key = f"{case['kind']};bt=" + ",".join(f"{k}:{v}" for k, v in sorted(case["bt"].items())) + f";sig={case.get('sigma') or (case.get('spec', {}).get('mats') or {}).get('sigma_e')};nc9={out.get('ncomp_eps') == 9}"
            return ("roundtrip:" + key, f"backward after forward misses the earlier state at step {ref['t']}: max err {err:.3e} (scale {scale:.3e})")
    return None


def nontrivial(case, out):
    return "error" not in out and Y.maxabs(out) > 0


def classify(case, out):
    if case["kind"] == "hand":
        return "hand|" + C01.classify(case, out) + ("|full-eps" if case.get("full_eps") else "") + ("|full-mu" if case.get("full_mu") else "") + ("|stretched" if case.get("stretched9") else "")
    m = case["spec"].get("mats") or {}
    return "placed|" + "+".join(s["kind"] + ("M" if s.get("mag") else "") for s in case["spec"]["sources"]) + \
        ("|sigE" if m.get("sigma_e") else "") + ("|sigH" if m.get("sigma_m") else "") + ("|full-tensor" if out.get("ncomp_eps") == 9 else "")
