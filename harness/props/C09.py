"""C09 — periodic and Bloch domains match their supercells."""
import numpy as np
from lib import core, yee_coq as Y
from props import C01

PID = "C09"
PROPS_FILE = "props/C09.v"
IMPL = "yee_impl.py"
COQ_HEADER = Y.HEADER
SHARD = 1
RULE = ("hand-built periodic / Bloch containers of N cells and their supercells (tiling factors 2-3 along each periodic axis, Bloch phase applied "
        "per copy, random k, random diagonal materials, optional conductivity and PEC/PMC on the remaining axes; uniform grids and non-uniform "
        "grids whose first and last cell widths agree along every tiled axis, grid tiled with the period) stepped by forward(): "
        "the supercell state must equal the tiled unit-cell state at every step; model tie: per-step correspondence on both containers; "
        "one scene with different first / last widths along a tiled axis replays the Coq witness C09_seam_width_needed_refuted (known finding)")
ASSUMPTIONS = ["Bloch phases are oracle values taken from the implementation"]
TRUSTED = ["correspondence harness"]
LEVEL_TEXT = ("Theorem C09_supercell_forward (every PML-free scene of the model: any cell counts, tiling factors mx, my, mz, ghost factors with lo*hi = 1 "
              "on tiled axes - periodic and Bloch with any unit phase -, any halo on untiled axes, widths, iso/diagonal materials, both conductivities, "
              "PEC/PMC masks, tiled source terms; any number of steps): on every cell of the supercell the state is the unit-cell state of cell (i mod N) "
              "times the per-copy phase. Hypothesis per tiled axis: first and last cell width of the period agree; C09_seam_width_needed_refuted shows "
              "by computation that the statement fails without it (the source uses w0 instead of (w0+w_{N-1})/2 for the dual cell across a periodic seam). "
              "C09_supercell_forward_full_tensor / C09_supercell_forward_lossy_tensor are the same statement for the fully anisotropic tiers (9-component tensors, width-weighted "
              "co-location averages across the seam; lossless, and conductive with per-cell 3x3 update matrices). "
              "Tie: per-step correspondence of the model on the unit cell and on the supercell (incl. 9-component media); tiling predicate on the implementation.")
LEVEL_NOTE = ("Scenes with CPML layers on untiled axes are outside the theorem (covered by the predicate only where generated); "
              "Bloch phases are oracle values.")
TECHNIQUE = "Coq proof (div/mod index arithmetic, phase powers, 3-D lift through curls/updates, induction over steps) + differential unit-cell/supercell runs"


def gen_case(rng, quick, i):
    shape = [rng.choice([1, 2, 2, 3]), rng.choice([1, 2, 3]), rng.choice([1, 2, 3])]      # incl. one-cell (collapsed) axes
    bt, kvec, reps = {}, [0.0, 0.0, 0.0], [1, 1, 1]
    for a, ax in enumerate("xyz"):
        kind = rng.choice(["periodic", "bloch", "wall"]) if a else rng.choice(["periodic", "bloch"])
        if kind == "wall":
            bt[f"min_{ax}"] = rng.choice(["pec", "pmc", "none"]); bt[f"max_{ax}"] = rng.choice(["pec", "pmc", "none"])
        else:
            bt[f"min_{ax}"] = bt[f"max_{ax}"] = kind
            reps[a] = rng.choice([2, 3]) if sum(r > 1 for r in reps) < (1 if quick else 2) else rng.choice([1, 2])
            if kind == "bloch":
                kvec[a] = rng.choice([-2.5e6, 1.0e6, 3.0e6])
    c = {"shape": shape, "bt": bt, "ncomp": rng.choice([1, 3]), "seed": rng.randint(0, 10**6), "steps": 2, "back": 0, "tile": reps}
    if any(kvec):
        c["kvec"] = kvec
    if i % 3 == 2:
        c["sigma"] = "EH"
    if i % 4 == 3 or i % 4 == 0 and i > 0:      # fully anisotropic (9-component, non-symmetric) inverse permittivity / permeability: model/YeeFull.v
        c.pop("sigma", None)
        c.update(full_eps=True, full_mu=bool(i % 8 >= 4))
    if i % 4 == 1:      # non-uniform grid whose first and last widths agree along every tiled axis
        edges = []
        for a in range(3):
            w = [rng.choice([0.75, 1.0, 1.5, 2.0]) for _ in range(shape[a])]
            if reps[a] > 1:
                w[-1] = w[0]
            edges.append([0.0] + [float(v) * 2.0 ** -23 for v in np.cumsum(w)])
        c["edges"] = edges
    return c


def seam_case():
    """the Coq witness C09_seam_width_needed_refuted on the implementation: widths [1, 2] along a periodic x axis, 2-fold supercell"""
    per = {f"{s_}_{a}": "periodic" for s_ in ("min", "max") for a in "xyz"}
    u = 2.0 ** -23
    return {"shape": [2, 2, 2], "bt": per, "ncomp": 1, "seed": 3, "steps": 2, "back": 0, "tile": [2, 1, 1],
            "edges": [[0.0, u, 3 * u], [0.0, u, 2 * u], [0.0, u, 2 * u]], "seam": True}


def full_case():
    """Bloch in all directions with a fully anisotropic medium: the co-location averages of the 9-component update reach across the seam"""
    return {"shape": [3, 2, 2], "bt": {f"{s_}_{a}": "bloch" for s_ in ("min", "max") for a in "xyz"}, "ncomp": 1, "seed": 21, "steps": 2, "back": 0,
            "tile": [2, 3, 1], "kvec": [3.0e6, -2.5e6, 0.0], "full_eps": True, "full_mu": True}


def full_stretched_case():
    """fully anisotropic medium on a stretched grid (width-weighted co-location averages) whose first and last widths agree along the tiled axes"""
    u = 2.0 ** -23
    cum = lambda w: [0.0] + [float(v) * u for v in np.cumsum(w)]
    return {"shape": [3, 2, 2], "bt": {f"{s_}_{a}": "periodic" for s_ in ("min", "max") for a in "xyz"}, "ncomp": 1, "seed": 22, "steps": 2, "back": 0,
            "tile": [2, 2, 1], "edges": [cum([1.0, 1.5, 1.0]), cum([2.0, 2.0]), cum([0.75, 1.5])], "full_eps": True, "full_mu": True}


def lossy_full_case():
    """conductive fully anisotropic medium (9-component tensors and conductivities) on a Bloch / periodic supercell: forward_lossy tiers"""
    # kept tiny: the 3x3 solves leave the dyadic regime, exact rationals grow quickly
    return {"shape": [2, 2, 1], "bt": {f"{s_}_{a}": "periodic" for s_ in ("min", "max") for a in "xyz"},
            "ncomp": 1, "seed": 23, "steps": 1, "back": 0, "tile": [2, 1, 1], "full_eps": True, "full_mu": True,
            "sigma": "EH", "full_sigma": True}


def thin_cases():
    """one-cell-thick Bloch axes with a non-zero wave-vector component (the collapsed-axis idiom for 2-D runs)"""
    def bt(bloch_axes):
        return {f"{s_}_{a}": ("bloch" if a in bloch_axes else "periodic") for s_ in ("min", "max") for a in "xyz"}
    return [{"shape": [1, 2, 3], "bt": bt("x"), "ncomp": 3, "seed": 11, "steps": 2, "back": 0, "tile": [3, 1, 1], "kvec": [3.0e6, 0.0, 0.0]},
            {"shape": [3, 2, 1], "bt": bt("xz"), "ncomp": 1, "seed": 12, "steps": 2, "back": 0, "tile": [1, 1, 2], "kvec": [1.0e6, 0.0, -2.5e6]}]


def gen_cases(ctx):
    return [seam_case(), full_case(), full_stretched_case(), lossy_full_case()] + thin_cases() + [gen_case(ctx.rng, ctx.quick, i) for i in range(ctx.pick(5, 30))]


def run_cases(ctx, cases):
    return core.run_impl_sharded(IMPL, cases, jobs=6)


def coq_expr(case, out):
    if "error" in out:
        return "false"
    parts = []
    for which, cs in (("small", case), ("big", dict(case, shape=[n * r for n, r in zip(case["shape"], case["tile"])]))):
        o = out[which]
        sc = Y.scene_term(cs, o)
        st = o["states"]
        if (o.get("ieps9") or o.get("imu9")) and cs.get("sigma"):
            parts.append(Y.lossy_steps_expr(cs["shape"], sc, o, list(zip(st, st[1:])), scale=max(Y.maxabs(o), 1.0)))
        elif o.get("ieps9") or o.get("imu9"):
            parts.append(Y.full_steps_expr(cs["shape"], sc, o, [("forward_fullX", a, b) for a, b in zip(st, st[1:])], Y.exact_ok(cs), scale=max(Y.maxabs(o), 1.0)))
        else:
            parts.append(Y.steps_expr(cs["shape"], sc, [("forwardX", a, b) for a, b in zip(st, st[1:])], Y.exact_ok(cs), scale=max(Y.maxabs(o), 1.0)))
    return "(" + " && ".join(parts) + ")%bool"


def predicate(case, out):
    if "error" in out:
        return ("driver-error", out["error"] + out.get("trace", "")[-300:])
    for side in ("small", "big"):
        d = out.get(side, {})
        if d.get("phase_err", 0.0) > 1e-6:      # grid edges are stored in single precision: k * (edge round-off) reaches 1e-8
            return ("bloch-phase-value", f"{side} domain: get_bloch_phase differs from exp(i k L) by {d['phase_err']:.3e}")
        if any(case.get("kvec", [0, 0, 0])) and not d.get("cplx", True):
            return ("bloch-real-fields", f"{side} domain: a non-zero Bloch vector {case.get('kvec')} was declared but the fields were initialised real")
    if out["tile_err"] > 1e-12 * out["scale"]:
        if case.get("seam"):
            return ("nonuniform-seam-width-mismatch", f"non-uniform periodic axis with first width != last width: supercell differs from the tiled unit cell "
                    f"by {out['tile_err']:.3e} (scale {out['scale']:.3e})")
        key = "bt=" + ",".join(f"{k}:{v}" for k, v in sorted(case["bt"].items())) + f";tile={case['tile']}"
        return ("supercell-differs:" + key, f"supercell state differs from the tiled unit cell by {out['tile_err']:.3e} (scale {out['scale']:.3e})")
    return None


def nontrivial(case, out):
    return "error" not in out and out["scale"] > 0 and max(case["tile"]) > 1


def classify(case, out):
    return "+".join(sorted(set(case["bt"].values()))) + f"|tile={case['tile']}" + ("|sigma" if case.get("sigma") else "")
