"""C09 — periodic and Bloch domains match their supercells."""
import numpy as np
from lib import core, yee_coq as Y
from props import C01

PID = "C09"
PROPS_FILE = "props/C09.v"
IMPL = "yee_impl.py"
COQ_HEADER = Y.HEADER
SHARD = 1
RULE = ("hand-built periodic / Bloch containers of N cells and their supercells (tiling factors 2-3 along each periodic axis, Bloch phase applied "
        "per copy, random k, random diagonal materials, optional conductivity and PEC/PMC on the remaining axes) stepped by forward(): "
        "the supercell state must equal the tiled unit-cell state at every step; model tie: per-step correspondence on both containers")
ASSUMPTIONS = ["Bloch phases are oracle values taken from the implementation"]
TRUSTED = ["correspondence harness"]
LEVEL_TEXT = ("PARTIAL. Theorems (all N, m, phases): forward and backward ghost reads of a tiled array are the tiled reads of one period - the only "
              "non-local ingredient of the step. The full supercell statement is decided by model-vs-implementation correspondence on both domains and by the "
              "tiling predicate on the implementation.")
LEVEL_NOTE = "The 3-D lift of the tiling lemmas through curl/update is not yet proved in Coq."
TECHNIQUE = "Coq proof (div/mod index arithmetic + phase powers) + differential unit-cell/supercell runs"


def gen_case(rng, quick, i):
    shape = [rng.randint(2, 3), rng.randint(2, 3), rng.randint(2, 3)]
    bt, kvec, reps = {}, [0.0, 0.0, 0.0], [1, 1, 1]
    for a, ax in enumerate("xyz"):
        kind = rng.choice(["periodic", "bloch", "wall"]) if a else rng.choice(["periodic", "bloch"])
        if kind == "wall":
            bt[f"min_{ax}"] = rng.choice(["pec", "pmc", "none"]); bt[f"max_{ax}"] = rng.choice(["pec", "pmc", "none"])
        else:
            bt[f"min_{ax}"] = bt[f"max_{ax}"] = kind
            reps[a] = rng.choice([2, 3]) if sum(r > 1 for r in reps) < (1 if quick else 2) else rng.choice([1, 2])
            if kind == "bloch":
                kvec[a] = rng.choice([-2.5e6, 1.0e6, 3.0e6])
    c = {"shape": shape, "bt": bt, "ncomp": rng.choice([1, 3]), "seed": rng.randint(0, 10**6), "steps": 2, "back": 0, "tile": reps}
    if any(kvec):
        c["kvec"] = kvec
    if i % 3 == 2:
        c["sigma"] = "EH"
    return c


def gen_cases(ctx):
    return [gen_case(ctx.rng, ctx.quick, i) for i in range(ctx.pick(5, 30))]


def run_cases(ctx, cases):
    return core.run_impl_sharded(IMPL, cases, jobs=6)


def coq_expr(case, out):
    if "error" in out:
        return "false"
    parts = []
    for which, cs in (("small", case), ("big", dict(case, shape=[n * r for n, r in zip(case["shape"], case["tile"])]))):
        o = out[which]
        sc = Y.scene_term(cs, o)
        st = o["states"]
        parts.append(Y.steps_expr(cs["shape"], sc, [("forwardX", a, b) for a, b in zip(st, st[1:])], Y.exact_ok(cs), scale=max(Y.maxabs(o), 1.0)))
    return "(" + " && ".join(parts) + ")%bool"


def predicate(case, out):
    if "error" in out:
        return ("driver-error", out["error"] + out.get("trace", "")[-300:])
    if out["tile_err"] > 1e-12 * out["scale"]:
        key = "bt=" + ",".join(f"{k}:{v}" for k, v in sorted(case["bt"].items())) + f";tile={case['tile']}"
        return ("supercell-differs:" + key, f"supercell state differs from the tiled unit cell by {out['tile_err']:.3e} (scale {out['scale']:.3e})")
    return None


def nontrivial(case, out):
    return "error" not in out and out["scale"] > 0 and max(case["tile"]) > 1


def classify(case, out):
    return "+".join(sorted(set(case["bt"].values()))) + f"|tile={case['tile']}" + ("|sigma" if case.get("sigma") else "")
