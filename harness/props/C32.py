"""C32 — symmetry unfolding is consistent (unfold_fields / unfold_array / unfold_detector_states)."""
import itertools
from fractions import Fraction

import numpy as np

from lib import core
from lib.core import zlit, lst, qlit
from lib import translate as T
from lib.symmetry_util import TrSym, doc_parity, doc_on_plane, nested, sym_lit, ft_lit, blit, unhex

PID = "C32"
PROPS_FILE = "props/C32.v"
IMPL = "C32_impl.py"
COQ_HEADER = ("From Coq Require Import ZArith QArith Qcanon Bool.\n"
              "From FV Require Import base.Scalar base.Util model.Symmetry model.SymmetryCases.")
SHARD = 12
RULE = ("tables: every (field, component, axis, wall in -2..2) of the three parity functions, all flux parities, _reduce_factor and "
        "_stored_component_spec samples; fields: every symmetry tuple in {-1,0,1}^3 (incl. the rejected (0,0,0)) x {E,H} on random "
        "quarter-integer arrays of random shape, plus invalid walls; array: unfold_array with random axis permutations, signs and on-plane "
        "axes; det: _unfold_one_detector on every detector kind x random non-zero touched tuple x component subset x exact_interpolation "
        "(with the reduce_volume twin fed the reduced record); placed: unfold_detector_states on placed scenes. "
        "Non-trivial = at least one symmetric axis with >= 2 cells and a non-zero array.")
EXHAUSTIVE = {"quick": False, "thorough": False}
ASSUMPTIONS = ["arrays are modelled as nested lists; complex detector states are compared as separate real and imaginary parts "
               "(every operation is real-linear with real signs)",
               "leading (time / frequency) axes of detector states are flattened by the harness into the [lead][component] block layout",
               "jnp.concatenate shape errors are not modelled (a 1-cell electric axis makes unfold_fields raise; excluded from the valid stream)",
               "straddles_symmetry_plane (objects/object.py) is read from the placed objects, not modelled"]
TRUSTED = ["translator harness/lib/translate.py + lib/symmetry_util.TrSym (gen = model, proved for all arguments)",
           "correspondence harness (exact rational comparison, float.hex -> Qc)"]
COMP = ("Ex", "Ey", "Ez", "Hx", "Hy", "Hz")
SPEC = [("E", 0), ("E", 1), ("E", 2), ("H", 0), ("H", 1), ("H", 2)]
WALLS = (-2, -1, 0, 1, 2)


# ------------------------------------------------------------------------------------------- translator
def translate(ctx):
    src = core.REPO / "src/fdtdx/core/physics/symmetry.py"
    en = {"field_type": {"E": "FE", "H": "FH"}}
    a4 = [("field_type", "(field_type : ftype)"), ("component", "(component : Z)"), ("axis", "(axis : Z)"), ("wall", "(wall : Z)")]
    res = []
    text = "From Coq Require Import ZArith List Bool.\nFrom FV Require Import base.PyNum model.Symmetry.\nOpen Scope Z_scope.\n"
    units = [("field_component_parity", "gen_parity", a4, "option Z", TrSym(enums=en, types={"normal": "bool"}), True),
             ("component_sits_on_plane", "gen_sits", a4[:3], "option bool", TrSym(enums=en), True),
             ("mirror_pairs_on_plane", "gen_pairs", a4, "bool", TrSym(enums=en, calls={"component_sits_on_plane": "sits_b"}), False)]
    tac = ("Proof. intros ft c a w; destruct ft; cbv beta delta [{g} {m} ftype_eqb sits_b component_sits_on_plane Z.opp] iota zeta; "
           "repeat match goal with |- context [Z.eqb ?x ?y] => destruct (Z.eqb x y) end; reflexivity. Qed.\n")
    for name, g, args, ret, tr, part in units:
        try:
            text += T.translate_function(src, name, g, args, ret, tr, partial_ok=part)
        except T.Unsupported as e:
            res.append((f"symmetry.py:{name}", False, f"Unsupported: {e}"))
            continue
        if len(args) == 4:
            text += f"Lemma {g}_eq : forall ft c a w, {g} ft c a w = {name} ft c a w.\n" + tac.format(g=g, m=name)
        else:
            text += (f"Lemma {g}_eq : forall ft c a (w : Z), {g} ft c a = {name} ft c a.\n" + tac.format(g=g, m=name))
        res.append((f"symmetry.py:{name}", None, "gen = model (all arguments)"))
    gfile = core.gen_path("Gen_C32")
    gfile.parent.mkdir(exist_ok=True)
    gfile.write_text(text)
    ok, out, err = core.coqc(gfile)
    return [(n, ok if o is None else o, (err[-800:] if not ok and o is None else m)) for n, o, m in res]


# ------------------------------------------------------------------------------------------- generators
def rand_arr(rng, shape):
    def rec(sh):
        if not sh:
            return rng.randint(-8, 8)
        return [rec(sh[1:]) for _ in range(sh[0])]
    return rec(list(shape))


def rand_touched(rng, nonzero=True, walls=(-1, 1)):
    while True:
        t = [rng.choice((0,) + tuple(walls)) for _ in range(3)]
        if any(t) or not nonzero:
            return t


def det_kinds(rng):
    # the second subset is listed in a random (non-canonical) order: the detector stores its rows in canonical order whatever the listing
    subs = [list(range(6)), rng.sample(range(6), rng.randint(2, 5)), [rng.randrange(6)]]
    ks = []
    for red in (False, True):
        for sub in subs:
            ks.append({"type": "field", "components": sub, "reduce": red})
            ks.append({"type": "phasor", "components": sub, "reduce": red, "nfreq": rng.choice((1, 2))})
        ks.append({"type": "energy", "as_slices": False, "reduce": red})
        ks.append({"type": "energy", "as_slices": True, "reduce": red})
        for ka in (False, True):
            ks.append({"type": "poynting", "keep_all": ka, "reduce": red, "axis": rng.randrange(3)})
    return ks


def det_state_shapes(dk, lead, sh):
    """stored layout of one detector (see _shape_dtype_single_time_step of each class)"""
    t = dk["type"]
    if t == "field":
        n = len(dk["components"])
        return {"fields": (lead, n) if dk["reduce"] else (lead, n, *sh)}
    if t == "phasor":
        n, f = len(dk["components"]), dk["nfreq"]
        return {"phasor": (1, f, n) if dk["reduce"] else (1, f, n, *sh)}
    if t == "energy":
        if dk["as_slices"]:
            return {"XY Plane": (lead, sh[0], sh[1]), "XZ Plane": (lead, sh[0], sh[2]), "YZ Plane": (lead, sh[1], sh[2])}
        return {"energy": (lead, 1) if dk["reduce"] else (lead, *sh)}
    if t == "poynting":
        if dk["keep_all"]:
            return {"poynting_flux": (lead, 3) if dk["reduce"] else (lead, 3, *sh)}
        return {"poynting_flux": (lead, 1) if dk["reduce"] else (lead, *sh)}
    return {"x": (lead,)}


def twin_of(dk):
    if dk["type"] in ("field", "phasor", "poynting") and not dk["reduce"]:
        return dict(dk, reduce=True)
    if dk["type"] == "energy" and not dk["reduce"] and not dk["as_slices"]:
        return dict(dk, reduce=True)
    return None


def placed_spec(rng, sym):
    n = [6, 4, 6]
    box = [[1, 5], [1, 3], [1, 5]]
    inner = [[3, 5], [1, 3], [2, 4]]          # starts on the x plane without crossing it
    up = [[4, 5], [2, 3], [3, 5]]             # entirely in the kept half
    dets = []
    for ex in (True, False):
        tag = "x" if ex else "n"
        sub = rng.sample(range(6), rng.randint(2, 6))        # listing order is arbitrary (rows are stored in canonical order)
        o = {"exact_interpolation": ex}
        dets += [{"kind": "field", "box": box, "name": "F" + tag, "opts": dict(o, components=[COMP[i] for i in sub])},
                 {"kind": "field", "box": box, "name": "Fr" + tag, "pair_of": "F" + tag, "opts": dict(o, components=[COMP[i] for i in sub], reduce_volume=True)},
                 {"kind": "energy", "box": box, "name": "E" + tag, "opts": dict(o)},
                 {"kind": "energy", "box": box, "name": "Er" + tag, "pair_of": "E" + tag, "opts": dict(o, reduce_volume=True)},
                 {"kind": "energy", "box": box, "name": "Es" + tag, "opts": dict(o, as_slices=True)},
                 {"kind": "phasor", "box": box, "name": "P" + tag, "opts": dict(o)},
                 {"kind": "phasor", "box": box, "name": "Pr" + tag, "pair_of": "P" + tag, "opts": dict(o, reduce_volume=True)},
                 {"kind": "poynting", "box": box, "name": "S" + tag, "opts": dict(o, reduce_volume=False, fixed_propagation_axis=1)},
                 {"kind": "poynting", "box": box, "name": "Sr" + tag, "pair_of": "S" + tag, "opts": dict(o, reduce_volume=True, fixed_propagation_axis=1)},
                 {"kind": "poynting", "box": box, "name": "Sk" + tag, "opts": dict(o, reduce_volume=False, fixed_propagation_axis=2, keep_all_components=True)},
                 {"kind": "poynting", "box": box, "name": "Skr" + tag, "pair_of": "Sk" + tag,
                  "opts": dict(o, reduce_volume=True, fixed_propagation_axis=2, keep_all_components=True)}]
    dets += [{"kind": "field", "box": inner, "name": "Fin", "opts": {}}, {"kind": "energy", "box": up, "name": "Eup", "opts": {}}]
    for d in dets:
        d["opts"]["direction"] = "+" if d["kind"] == "poynting" else None
        d["opts"] = {k: v for k, v in d["opts"].items() if v is not None}
    return {"shape": n, "spacing": 1e-7, "steps": 1, "symmetry": list(sym), "thickness": 1,
            "bt": {f: "pec" for f in ("min_x", "max_x", "min_y", "max_y", "min_z", "max_z")}, "detectors": dets}


def gen_cases(ctx):
    rng = ctx.rng
    cases = [{"kind": "tables",
              "rf": [[[[1, -1], [1, 1], [-1, -1], [], [1], [-1], [1, 1, 1], [1, -1, 1]], m] for m in (True, False)],
              "subsets": [list(range(6)), [0], [5, 0], [3, 1, 2], [4, 2], []]}]
    tuples = list(itertools.product((-1, 0, 1), repeat=3))
    reps = ctx.pick(1, 4)
    for _ in range(reps):
        for sym in tuples:
            for ft in "EH":
                sh = [rng.randint(2 if s == -1 else 1, ctx.pick(3, 5)) for s in sym]
                cases.append({"kind": "fields", "ft": ft, "sym": list(sym), "den": 4, "data": rand_arr(rng, [3] + sh)})
    # malformed stream: invalid walls, wrong component count, 1-cell electric axis
    for sym in ([2, 0, 0], [0, -3, 1], [1, 1, 2]):
        cases.append({"kind": "fields", "ft": rng.choice("EH"), "sym": sym, "den": 4, "data": rand_arr(rng, [3, 2, 2, 2]), "malformed": "wall"})
    cases.append({"kind": "fields", "ft": "E", "sym": [-1, 0, 0], "den": 4, "data": rand_arr(rng, [3, 1, 2, 2]), "malformed": "onecell"})
    cases.append({"kind": "fields", "ft": "H", "sym": [1, -1, 0], "den": 4, "data": rand_arr(rng, [2, 2, 3, 1]), "malformed": None})
    for _ in range(ctx.pick(16, 120)):
        perm = list(rng.choice(list(itertools.permutations(range(3)))))
        sym = rand_touched(rng, nonzero=rng.random() > 0.1, walls=(-1, 1, 2))
        sh = [rng.randint(1, 4) for _ in range(3)]
        signs = None if rng.random() < 0.2 else {str(a): rng.choice((1, -1, 1, -1, 2)) for a in range(3) if rng.random() < 0.8}
        on = [a for a in range(3) if rng.random() < 0.4]
        cases.append({"kind": "array", "sym": sym, "spatial_axes": perm, "signs": signs, "on_plane_axes": on, "den": 4, "data": rand_arr(rng, sh)})
    for rep in range(ctx.pick(2, 10)):
        for dk in det_kinds(rng):
            dk = dict(dk, exact=rng.random() < 0.6)
            touched = rand_touched(rng)
            lead = rng.randint(1, 2)
            sh = [rng.randint(2, 3) for _ in range(3)]
            cplx = dk["type"] == "phasor"
            st = {}
            for k, shape in det_state_shapes(dk, lead, sh).items():
                st[k] = {"re": rand_arr(rng, shape), "im": rand_arr(rng, shape)} if cplx else rand_arr(rng, shape)
            cases.append({"kind": "det", "dk": dk, "touched": touched, "state": st, "twin": twin_of(dk)})
    cases.append({"kind": "det", "dk": {"type": "diffractive"}, "touched": [1, 0, 0], "state": {"x": [1, 2]}, "twin": None})
    syms = [(-1, 0, 1), (1, -1, -1)] if ctx.quick else [(-1, 0, 1), (1, -1, -1), (0, 0, -1), (1, 1, 0), (-1, -1, 1), (0, 1, 0), (0, 0, 0)]
    for i, sym in enumerate(syms):
        cases.append({"kind": "placed", "spec": placed_spec(rng, sym), "seed": ctx.seed * 100 + i})
    return cases


def run_cases(ctx, cases):
    light = [c for c in cases if c["kind"] != "placed"]
    heavy = [c for c in cases if c["kind"] == "placed"]
    from concurrent.futures import ThreadPoolExecutor
    with ThreadPoolExecutor(2) as ex:
        fl_ = ex.submit(lambda: core.run_impl_sharded(IMPL, light, shard=ctx.pick(1, 3)))
        fh_ = ex.submit(lambda: core.run_impl_sharded(IMPL, heavy, shard=min(len(heavy), ctx.pick(2, 4))) if heavy else [])
        ol, oh = fl_.result(), fh_.result()
    il, ih = iter(ol), iter(oh)
    return [next(ih) if c["kind"] == "placed" else next(il) for c in cases]


# ------------------------------------------------------------------------------------------- Coq side
def qd(den):
    return lambda v: f"(q ({int(v)}) {int(den)})"


def qf(v):
    f = v if isinstance(v, Fraction) else Fraction(v)
    return f"(z ({f.numerator}))" if f.denominator == 1 else f"(q ({f.numerator}) ({f.denominator}))"


def kind_lit(dk):
    t = dk["type"]
    if t in ("field", "phasor"):
        return f"({'DField' if t == 'field' else 'DPhasor'} {lst(sorted(dk['components']), zlit)} {blit(dk['reduce'])})"
    if t == "energy":
        return f"(DEnergy {blit(dk['as_slices'])} {blit(dk['reduce'])})"
    if t == "poynting":
        return f"(DPoynting {blit(dk['keep_all'])} {blit(dk['reduce'])} {zlit(dk['axis'])})"
    return "DOther"


def dstate_lit(dk, st):
    """st: dict key -> nested lists of Fractions (one real part)"""
    t = dk["type"]
    if t == "energy" and dk["as_slices"]:
        return f"(SSlices QcF {nested(st['XY Plane'], qf)} {nested(st['XZ Plane'], qf)} {nested(st['YZ Plane'], qf)})"
    key = {"field": "fields", "phasor": "phasor", "energy": "energy", "poynting": "poynting_flux"}[t]
    a = st[key]
    if t == "phasor":
        a = a[0]
    if dk["reduce"]:
        return f"(SReduced QcF {nested(a, qf)})"
    if t == "energy" or (t == "poynting" and not dk["keep_all"]):
        a = [[blk] for blk in a]
    return f"(SSpatial QcF {nested(a, qf)})"


def parts(st):
    """split a fl()-serialised state into real parts: [dict key -> nested Fractions]"""
    if any(isinstance(v, dict) for v in st.values()):
        return [{k: unhex(v["re"]) for k, v in st.items()}, {k: unhex(v["im"]) for k, v in st.items()}]
    return [{k: unhex(v) for k, v in st.items()}]


def det_expr(dk, touched, st_in, out, top=False):
    fn = "unfold_detector_state" if top else "unfold_one_detector"
    call = lambda s: f"{fn} QcF {kind_lit(dk)} {blit(dk.get('exact', True))} {sym_lit(touched)} {dstate_lit(dk, s)}"
    if "error" in out:
        if dk["type"] == "diffractive":
            return f"match {fn} QcF DOther true {sym_lit(touched)} (SReduced QcF []) with None => true | _ => false end"
        return " && ".join(f"match {call(s)} with None => true | _ => false end" for s in parts(st_in))
    return " && ".join(f"match {call(si)} with Some r => dstate_eqb r {dstate_lit(dk, so)} | None => false end"
                       for si, so in zip(parts(st_in), parts(out["state"])))


def ser_in(st):
    """case-side state (ints) -> same structure as fl() output handled by parts()"""
    return st


def coq_expr(case, out):
    k = case["kind"]
    if k == "tables":
        ps = []
        it = iter(out["parity"]); isits = iter(out["sits"]); ipairs = iter(out["pairs"])
        for ft in "EH":
            for c in range(3):
                for a in range(3):
                    ps.append(f"Bool.eqb (sits_b {ft_lit(ft)} {zlit(c)} {zlit(a)}) {blit(next(isits))}")
                    for w in WALLS:
                        v = next(it)
                        ps.append(f"opt_eqb Z.eqb (field_component_parity {ft_lit(ft)} {zlit(c)} {zlit(a)} {zlit(w)}) {'None' if v is None else '(Some ' + zlit(v) + ')'}")
                        ps.append(f"Bool.eqb (mirror_pairs_on_plane {ft_lit(ft)} {zlit(c)} {zlit(a)} {zlit(w)}) {blit(next(ipairs))}")
        ip = iter(out["poynting"])
        for i in range(3):
            for a in range(3):
                for w in (-1, 1):
                    ps.append(f"Z.eqb (poynting_parity {zlit(i)} {zlit(a)} {zlit(w)}) {zlit(next(ip))}")
        for (par, mean), vals in zip(case["rf"], out["rf"]):
            ps.append(f"qlist_eqb (map (reduce_factor QcF {blit(mean)}) {lst(par, lambda p: lst(p, zlit))}) {lst(unhex(vals), qf)}")
        for sub, spec in zip(case["subsets"], out["spec"]):
            ps.append(f"spec_eqb (stored_component_spec {lst(sub, zlit)}) {lst(spec, lambda s: '(' + ft_lit(s[0]) + ', ' + zlit(s[1]) + ')')}")
        return "(" + " && ".join(ps) + ")%bool"
    if k == "fields":
        if case.get("malformed") == "onecell":
            return None
        m = f"unfold_fields QcF {ft_lit(case['ft'])} {sym_lit(case['sym'])} {nested(case['data'], qd(case['den']))}"
        if "error" in out:
            return f"match {m} with None => true | Some _ => false end"
        return f"match {m} with Some u => fields_eqb u {nested(unhex(out['u']), qf)} | None => false end"
    if k == "array":
        sg = case["signs"] or {}
        m = (f"unfold_array QcF 3 {sym_lit(case['sym'])} (tbl 0%nat {lst(case['spatial_axes'], lambda v: str(v) + '%nat')}) "
             f"(tbl 1%Qc {lst([sg.get(str(a), 1) for a in range(3)], qf)}) (tbl false {lst([a in case['on_plane_axes'] for a in range(3)], blit)}) "
             f"{nested(case['data'], qd(case['den']))}")
        if "error" in out:
            return f"match {m} with None => true | Some _ => false end"
        return f"match {m} with Some u => a3_eqb u {nested(unhex(out['u']), qf)} | None => false end"
    if k == "det":
        e = det_expr(case["dk"], case["touched"], case["state"], out)
        if case.get("twin") and "twin" in out:
            e += " && " + det_expr(dict(case["twin"], exact=case["dk"].get("exact", True)), case["touched"], out["twin_in"], out["twin"])
        return "(" + e + ")%bool"
    if k == "placed":
        if "error" in out:
            return "true" if not any(case["spec"]["symmetry"]) else "false"
        ps = []
        for d in case["spec"]["detectors"]:
            info = out["info"][d["name"]]
            if info.get("dropped"):
                continue
            ps.append(det_expr(placed_dk(d), touched_of(case, info), info["in"], {"state": info["out"]}, top=True))
        return "(" + " && ".join(ps) + ")%bool"
    return None


def placed_dk(d):
    o = d["opts"]
    ex = o.get("exact_interpolation", True)
    if d["kind"] in ("field", "phasor"):
        comps = sorted(COMP.index(c) for c in o.get("components", COMP))
        return {"type": d["kind"], "components": comps, "reduce": bool(o.get("reduce_volume", False)), "exact": ex, "nfreq": 1}
    if d["kind"] == "energy":
        return {"type": "energy", "as_slices": bool(o.get("as_slices", False)), "reduce": bool(o.get("reduce_volume", False)), "exact": ex}
    return {"type": "poynting", "keep_all": bool(o.get("keep_all_components", False)), "reduce": bool(o.get("reduce_volume", True)),
            "axis": int(o["fixed_propagation_axis"]), "exact": ex}


def touched_of(case, info):
    sym = case["spec"]["symmetry"]
    return [sym[a] if info["straddles"][a] else 0 for a in range(3)]


# ------------------------------------------------------------------------------------------- the property on the implementation
def npf(a):
    return np.array(unhex(a), dtype=object).astype(float) if not isinstance(a, np.ndarray) else a


def check_block(u, f, touched, par, onf, what):
    """u, f: (..., x, y, z) blocks; successive axes: build the expected array by the documented map and compare"""
    exp = f
    for a in range(3):
        if touched[a] == 0:
            continue
        ax = exp.ndim - 3 + a
        n = exp.shape[ax]
        p, on = par(a), onf(a)
        if on:
            body = np.take(exp, range(n - 1, 0, -1), axis=ax) * p
            low = np.concatenate([np.take(body, [0], axis=ax), body], axis=ax) if n > 1 else body
        else:
            low = np.flip(exp, axis=ax) * p
        exp = np.concatenate([low, exp], axis=ax)
    if u.shape != exp.shape or not np.array_equal(u, exp):
        return f"{what}: unfolded block differs from the documented mirror map (touched {touched})"
    return None


def doc_sign(dk, ci, a, wall):
    t = dk["type"]
    if t in ("field", "phasor"):
        ft, ca = [SPEC[i] for i in range(6) if i in dk["components"]][ci]
        return doc_parity(ft, ca, a, wall)
    if t == "energy":
        return 1
    comp = ci if dk["keep_all"] else dk["axis"]
    return -1 if comp == a else 1


def complex_np(v):
    if isinstance(v, dict):
        return npf(v["re"]) + 1j * npf(v["im"])
    return npf(v)


def canon(dk, a):
    """state array -> (lead, comp, ...) layout"""
    t = dk["type"]
    if t == "phasor":
        a = a[0]
    if not dk["reduce"] and (t == "energy" or (t == "poynting" and not dk["keep_all"])):
        a = a[:, None]
    return a


def det_predicate(dk, touched, st_in, st_out, what):
    t = dk["type"]
    exact = dk.get("exact", True)
    onf = lambda a: bool(exact and a < 2 and touched[a] == -1)
    if t == "energy" and dk["as_slices"]:
        for key, (pa, pb) in {"XY Plane": (0, 1), "XZ Plane": (0, 2), "YZ Plane": (1, 2)}.items():
            f, u = complex_np(st_in[key]), complex_np(st_out[key])
            # embed the plane as a 3-D block with a singleton third axis
            perm_t = [touched[pa], touched[pb], 0]
            r = check_block(u[..., None], f[..., None], perm_t, lambda a: 1, lambda a: onf((pa, pb, 9)[a]), f"{what}/{key}")
            if r:
                return r
        return None
    key = {"field": "fields", "phasor": "phasor", "energy": "energy", "poynting": "poynting_flux"}[t]
    f, u = canon(dk, complex_np(st_in[key])), canon(dk, complex_np(st_out[key]))
    if f.ndim < 2 or u.shape[:2] != f.shape[:2]:
        return f"{what}: layout changed {f.shape} -> {u.shape}"
    for ci in range(f.shape[1]):
        par = lambda a, ci=ci: doc_sign(dk, ci, a, touched[a])
        if dk["reduce"]:
            fac = 1.0
            for a in range(3):
                if touched[a]:
                    fac *= (1 + par(a)) / 2 if t in ("field", "phasor") else (1 + par(a))
            if not np.array_equal(u[:, ci], f[:, ci] * fac):
                return f"{what}: reduced component {ci} not rescaled by {fac}"
        else:
            r = check_block(u[:, ci], f[:, ci], touched, par, onf, f"{what}/comp{ci}")
            if r:
                return r
    return None


def reduce_np(dk, a):
    a = canon(dk, a)
    return a.mean(axis=(-3, -2, -1)) if dk["type"] in ("field", "phasor") else a.sum(axis=(-3, -2, -1))


def pair_predicate(dk, touched, out_spatial, out_reduced, what):
    exact = dk.get("exact", True)
    if any(exact and a < 2 and touched[a] == -1 for a in range(3)):
        return None          # a component sits on the plane: the clause does not apply
    key = {"field": "fields", "phasor": "phasor", "energy": "energy", "poynting": "poynting_flux"}[dk["type"]]
    full = reduce_np(dk, complex_np(out_spatial[key]))
    red = canon(dict(dk, reduce=True), complex_np(out_reduced[key]))
    if full.shape != red.shape or not np.allclose(full, red, rtol=1e-12, atol=1e-12):
        return f"{what}: reducing the unfolded record gives {full.ravel()[:4]}, the unfolded reduced value is {red.ravel()[:4]}"
    return None


def key_of(case):
    return core.case_hash(case)[:10]


def predicate(case, out):
    k = case["kind"]
    if k == "tables":
        it = iter(out["parity"]); isits = iter(out["sits"]); ipairs = iter(out["pairs"])
        for ft in "EH":
            for c in range(3):
                for a in range(3):
                    sits = next(isits)
                    if sits != ((c != a) if ft == "E" else (c == a)):
                        return (f"sits-{ft}{c}{a}", "component_sits_on_plane contradicts the Yee staggering")
                    for w in WALLS:
                        v, pr = next(it), next(ipairs)
                        exp = doc_parity(ft, c, a, w) if w in (-1, 1) else None
                        if v != exp:
                            return (f"parity-{ft}{c}{a}{w}", f"field_component_parity({ft},{c},{a},{w}) = {v}, documented {exp}")
                        if pr != doc_on_plane(ft, c, a, w):
                            return (f"pairs-{ft}{c}{a}{w}", f"mirror_pairs_on_plane({ft},{c},{a},{w}) = {pr}")
        ip = iter(out["poynting"])
        for i in range(3):
            for a in range(3):
                for w in (-1, 1):
                    if next(ip) != (-1 if i == a else 1):
                        return (f"poynting-{i}{a}{w}", "flux parity is not that of a polar vector")
        return None
    if k == "fields":
        sym = case["sym"]
        bad = not any(sym) or any(s not in (-1, 0, 1) for s in sym)
        if "error" in out:
            if bad or case.get("malformed") == "onecell":
                return None
            return ("fields-error-" + key_of(case), f"unfold_fields raised {out['error']} on a valid input")
        if bad:
            return ("fields-accepted-" + key_of(case), f"unfold_fields accepted symmetry {sym}")
        f = np.array(case["data"], dtype=float) / case["den"]
        u = npf(out["u"])
        if not out["restrict_ok"]:
            return ("restrict-" + key_of(case), f"restrict_to_kept_half(unfold_fields(f)) != f for symmetry {sym}, shape {f.shape}")
        if u.shape[0] != f.shape[0]:
            return ("comps-" + key_of(case), "component count changed")
        for c in range(f.shape[0]):
            r = check_block(u[c], f[c], sym, lambda a: doc_parity(case["ft"], c, a, sym[a]), lambda a: doc_on_plane(case["ft"], c, a, sym[a]),
                            f"{case['ft']}{c} sym {sym}")
            if r:
                return ("indexmap-" + key_of(case), r)
            for a in range(3):
                if sym[a]:
                    r = check_axis_final(u[c], f[c].shape[a], a, doc_parity(case["ft"], c, a, sym[a]), doc_on_plane(case["ft"], c, a, sym[a]))
                    if r:
                        return ("indexmap-" + key_of(case), f"{case['ft']}{c} sym {sym}: {r}")
        return None
    if k == "array":
        sym = case["sym"]
        if "error" in out:
            return None if not any(sym) else ("array-error-" + key_of(case), "unfold_array raised on a symmetric tuple")
        if not any(sym):
            return ("array-accepted-" + key_of(case), "unfold_array accepted (0,0,0)")
        f = np.array(case["data"], dtype=float) / case["den"]
        u = npf(out["u"])
        perm = case["spatial_axes"]
        # bring physical axis a to position a
        fz, uz = np.transpose(f, perm), np.transpose(u, perm)
        sg = case["signs"] or {}
        r = check_block(uz, fz, sym, lambda a: sg.get(str(a), 1), lambda a: a in case["on_plane_axes"], f"unfold_array sym {sym}")
        return ("array-" + key_of(case), r) if r else None
    if k == "det":
        dk = case["dk"]
        if dk["type"] == "diffractive":
            return None if "error" in out else ("diffractive-accepted", "DiffractiveDetector was unfolded")
        if "error" in out:
            return ("det-error-" + key_of(case), f"_unfold_one_detector raised {out['error']}")
        r = det_predicate(dk, case["touched"], case["state"], out["state"], f"{dk['type']} touched {case['touched']}")
        if r:
            return ("det-" + key_of(case), r)
        if case.get("twin") and "twin" in out:
            tw = dict(case["twin"], exact=dk.get("exact", True))
            r = det_predicate(tw, case["touched"], out["twin_in"], out["twin"]["state"], f"{dk['type']}(reduced) touched {case['touched']}") \
                or pair_predicate(dk, case["touched"], out["state"], out["twin"]["state"], f"{dk['type']} touched {case['touched']}")
            if r:
                return ("reduce-" + key_of(case), r)
        return None
    if k == "placed":
        sym = case["spec"]["symmetry"]
        if "error" in out:
            return None if not any(sym) else ("placed-error-" + key_of(case), f"unfold_detector_states raised {out['error']}")
        if not any(sym):
            return ("placed-accepted-" + key_of(case), "unfold_detector_states accepted (0,0,0)")
        for d in case["spec"]["detectors"]:
            info = out["info"][d["name"]]
            if info.get("dropped"):
                continue
            dk, touched = placed_dk(d), touched_of(case, info)
            # independent statement of "clipped by the plane": the full-domain box crosses the centre
            exp_str = [bool(sym[a] != 0 and d["box"][a][0] < case["spec"]["shape"][a] // 2) for a in range(3)]
            if [bool(sym[a] != 0 and info["straddles"][a]) for a in range(3)] != exp_str:
                return ("straddle-" + d["name"], f"detector {d['name']} box {d['box']}: straddles {info['straddles']}")
            r = det_predicate(dk, touched, info["in"], info["out"], f"{d['name']} sym {sym}")
            if r:
                return ("placed-" + d["name"] + "-" + "".join(map(str, sym)), r)
            if d.get("pair_of"):
                sp = next(x for x in case["spec"]["detectors"] if x["name"] == d["pair_of"])
                r = pair_predicate(placed_dk(sp), touched, out["info"][sp["name"]]["out"], info["out"], f"{d['name']} sym {sym}")
                if r:
                    return ("placed-reduce-" + d["name"] + "-" + "".join(map(str, sym)), r)
        return None
    return None


def check_axis_final(u, n, a, p, on):
    """index-map identity on the final (all axes unfolded) component array along physical axis a"""
    ax = u.ndim - 3 + a
    if on and n == 1:
        return None
    if u.shape[ax] != 2 * n:
        return f"axis {a} has {u.shape[ax]} cells, expected {2 * n}"
    take = lambda i: np.take(u, i, axis=ax)
    for j in range(n):
        if on:
            if j >= 1 and not np.array_equal(take(n - j), p * take(n + j)):
                return f"u[n-{j}] != {p}*u[n+{j}] along axis {a}"
        elif not np.array_equal(take(n - 1 - j), p * take(n + j)):
            return f"u[n-1-{j}] != {p}*u[n+{j}] along axis {a}"
    return None


def nontrivial(case, out):
    if case["kind"] in ("tables", "placed"):
        return True
    if "error" in out:
        return False
    if case["kind"] in ("fields", "array"):
        return any(case["sym"]) and np.any(np.array(case["data"]) != 0) and max(np.array(case["data"]).shape[-3:]) >= 2
    return True


def classify(case, out):
    k = case["kind"]
    if k == "det":
        return "det-" + case["dk"]["type"] + ("-reduced" if case["dk"].get("reduce") else "")
    if k == "fields":
        return "fields-" + str(sum(1 for s in case["sym"] if s)) + "axes" + ("-malformed" if "malformed" in case else "")
    return k


def show_model(case, out):
    k = case["kind"]
    try:
        if k == "fields":
            return core.coq_eval_text(PID, COQ_HEADER, f"unfold_fields QcF {ft_lit(case['ft'])} {sym_lit(case['sym'])} {nested(case['data'], qd(case['den']))}")[-1500:]
    except Exception as e:  # noqa
        return str(e)
    return None


LEVEL_TEXT = ("Theorems (any field of scalars, any rank, every shape): restrict o unfold = id per axis and for unfold_fields over all symmetry "
              "tuples; the per-axis index map u[n-1-j] = p*u[n+j] (flip) / u[n-j] = p*u[n+j] (on-plane, outer cell repeated) with a complete "
              "pointwise description; the parity / index-map / flux-parity tables equal their physical specification for all integer "
              "arguments; sum and mean of a flip-unfolded record equal prod(1+p) resp. prod(1+p)/2 times the reduced value, and for every "
              "detector kind unfolding the reduce_volume value equals reducing the unfolded spatial record when no axis uses the on-plane map "
              "(with a proved counterexample when one does). Tie: translator regenerates the three parity functions (gen = model for all "
              "arguments); model vs unfold_fields / unfold_array / _unfold_one_detector / unfold_detector_states on all symmetry tuples and "
              "detector kinds, exact rational comparison.")
LEVEL_NOTE = ("Trusted: Coq kernel; translator; nested-list array model (concatenate shape errors not modelled); harness flattening of leading "
              "axes and re/im split; straddles_symmetry_plane read from the implementation.")
TECHNIQUE = "Coq proof (induction over rank and lists, ring/field) + ast translator + exact differential checks"
