"""C18 — device parameters map to materials exactly as documented."""
import numpy as np
from lib import core
from lib.core import qlit, zlit, lst, frac

PID = "C18"
PROPS_FILE = "props/C18.v"
IMPL = "C18_impl.py"
COQ_HEADER = ("From Coq Require Import ZArith QArith Qcanon.\n"
              "From FV Require Import base.Scalar base.PyNum base.Util model.DeviceOverlap model.DeviceApply.")
SHARD = 2
RULE = ("placed scenes (8x6x8 / 7x6x9 cells, background block so that the etch background is not uniform) with 1-2 devices (possibly "
        "overlapping): continuous (2 materials), discrete (ClosestIndex, 2-4 materials), etched; isotropic and diagonal materials, dict order "
        "shuffled; voxels of 1-3 cells; histories of 1-3 random parameter sets. The Qc model run on the whole history must reproduce the final "
        "inverse-permittivity array (1e-9 relative); predicate: per-cell formula, range, cells outside unchanged, history == last. "
        "dispersive tier: device materials with 0-2 Lorentz poles half inside a 1-2 pole background block, every pole slot of c1..c3 compared per cell. "
        "non-trivial = history of >= 2 sets")
EXHAUSTIVE = {"quick": False, "thorough": False}
ASSUMPTIONS = ["the transform chain's output on the design grid is an input of the model (oracle: device(params, expand_to_sim_grid=False)); transforms are C19-C25",
               "float64 blend/division agree with exact arithmetic to 1e-9 relative",
               "uniform grid: voxel expansion is expand_matrix (repetition); the overlap-weight resampling of physical design voxels on non-uniform grids is not modelled",
               "executed instance: 1 or 3 permittivity components (componentwise inverse); the 9-component tensor inverse is covered by the theorems (abstract invert) but not executed"]
TRUSTED = ["correspondence harness (Qc_close 1e-9)", "materials ordered by ascending first permittivity component (checked against compute_allowed_permittivities)"]

KINDS = ["cont", "etch", "disc", "etch", "cont", "disc"]
EPS = [1.0, 2.0, 2.25, 3.0, 4.0, 5.0, 8.0, 12.0]


def rnd_eps(rng, diag):
    return [rng.choice(EPS) for _ in range(3)] if diag else rng.choice(EPS)


def first(e):
    return e[0] if isinstance(e, list) else e


def gen_device(rng, shape, kind, diag):
    vox = [rng.choice([1, 2, 3]), rng.choice([1, 2]), rng.choice([1, 2, 3])]
    nv = [rng.randint(1, max(1, (shape[a] - 2) // vox[a])) for a in range(3)]
    size = [nv[a] * vox[a] for a in range(3)]
    lo = [rng.randint(1, shape[a] - 1 - size[a]) if shape[a] - 1 - size[a] >= 1 else 1 for a in range(3)]
    box = [[lo[a], lo[a] + size[a]] for a in range(3)]
    n = 1 if kind == "etch" else 2 if kind == "cont" else rng.choice([2, 3, 4])
    firsts = rng.sample(EPS, n)
    mats = []
    for f in firsts:
        mats.append([f, rng.choice(EPS), rng.choice(EPS)] if diag else f)
    return {"box": box, "voxel": vox, "kind": kind, "mats": mats}


def gen_case(rng, i):
    shape = rng.choice([[8, 6, 8], [7, 6, 9]])
    diag = rng.random() < 0.4
    kind = KINDS[i % len(KINDS)]
    devs = [gen_device(rng, shape, kind, diag)]
    if rng.random() < 0.4:
        k2 = "cont" if kind == "etch" else rng.choice(["cont", "disc"])
        devs.append(gen_device(rng, shape, k2, diag))
        if rng.random() < 0.5:
            devs.reverse()
    bg = None
    if rng.random() < 0.8:
        cut = rng.randint(2, shape[0] - 2)
        bg = {"box": [[0, cut], [0, shape[1]], [0, shape[2]]], "eps": rnd_eps(rng, diag and rng.random() < 0.7)}
    nh = rng.choice([2, 3]) if any(d["kind"] == "etch" for d in devs) else rng.choice([1, 2, 2, 3])   # etching: history must matter
    return {"shape": shape, "vol_eps": rnd_eps(rng, False) if not diag else rnd_eps(rng, rng.random() < 0.5), "bg": bg, "devices": devs,
            "hist": [[rng.randint(0, 10**6) for _ in devs] for _ in range(nh)]}


def t9(rng):
    """full permittivity tensor, NOT symmetric (row-major 9-list), well conditioned"""
    a, b, c = rng.choice(EPS) + 1, rng.choice(EPS) + 1, rng.choice(EPS) + 1
    return [a, 0.5, 0.125, 0.25, b, 0.25, 0.0, 0.375, c]


def gen_case9(rng, i):
    """9-component tier: predicate only (numpy 3x3 inverses); the Coq instance executes the 1- and 3-component tiers"""
    c = gen_case(rng, i)
    for d in c["devices"]:
        d["mats"] = sorted([t9(rng) for _ in d["mats"]], key=lambda m: m[0])
        firsts = set()
        for m in d["mats"]:          # distinct leading entries keep the material order unambiguous
            while m[0] in firsts:
                m[0] += 1.0
            firsts.add(m[0])
    c["vol_eps"] = t9(rng)
    if c["bg"]:
        c["bg"]["eps"] = t9(rng)
    return c


POLES = [[2.0e15, 1.0e13, 1.5], [3.1e15, 2.0e13, 0.7], [2.6e15, 3.0e13, 0.9]]


def gen_case_disp(rng, i):
    """dispersive tier: a device (discrete / continuous) whose materials carry 0 .. 2 Lorentz poles, half inside a dispersive background block
    with 1 or 2 poles (so the simulation-wide pole axis can be longer than the device's own)"""
    shape = [8, 6, 8]
    kind = ["disc", "cont", "disc"][i % 3]
    d = gen_device(rng, shape, kind, False)
    npole = [rng.choice([0, 1]) for _ in d["mats"]] if i % 2 == 0 else [rng.choice([0, 1, 2]) for _ in d["mats"]]
    d["poles"] = [[list(POLES[(j + q) % 3]) for q in range(n)] for j, n in enumerate(npole)]
    cut = max(d["box"][0][0] + 1, 3)
    bg = {"box": [[0, cut], [0, shape[1]], [0, shape[2]]], "eps": rng.choice(EPS), "poles": [list(POLES[0]), list(POLES[1])][:(2 if i % 2 == 0 else rng.choice([1, 2]))]}
    return {"shape": shape, "vol_eps": 1.0, "bg": bg, "devices": [d], "hist": [[rng.randint(0, 10**6)] for _ in range(2)], "disp": True}


def gen_cases(ctx):
    return ([gen_case(ctx.rng, i) for i in range(ctx.pick(8, 60))] + [gen_case9(ctx.rng, i) for i in range(ctx.pick(3, 12))]
            + [gen_case_disp(ctx.rng, i) for i in range(ctx.pick(3, 12))])


def run_cases(ctx, cases):
    return core.run_impl_sharded(IMPL, cases, shard=min(len(cases), ctx.pick(4, 6)))


# ----------------------------------------------------------------------------- helpers shared by model text and predicate
def as9(m):
    if not isinstance(m, list):
        return [m, 0.0, 0.0, 0.0, m, 0.0, 0.0, 0.0, m]
    if len(m) == 3:
        return [m[0], 0.0, 0.0, 0.0, m[1], 0.0, 0.0, 0.0, m[2]]
    return list(m)


def ordered_mats(dev, ncomp):
    ms = sorted(dev["mats"], key=first)
    if ncomp == 9:
        return [as9(m) for m in ms]
    return [(m if isinstance(m, list) else [m] * ncomp)[:ncomp] if ncomp > 1 else [first(m)] for m in ms]


def boxlit(b):
    return "(" + ", ".join(f"({zlit(lo)}, {zlit(hi)})" for lo, hi in b) + ")"


def arr3(a):
    return lst(a, lambda yz: lst(yz, lambda z: lst(z, qlit)))


def flat(a):
    return [v for x in a for y in x for v in y]


def devs_of(case, out):
    """case devices in the order of objects.devices"""
    return [case["devices"][int(n[3:])] for n in out["names"]]


def coq_model(case, out):
    nc = out["ncomp"]
    cur = f"(arr_of_list {lst(out['base'], arr3)})"
    init = f"(Some {cur})" if out["has_backup"] else "None"
    devs = []
    for d, b in zip(devs_of(case, out), out["boxes"]):
        kind = {"cont": "Continuous", "disc": "Discrete", "etch": "Etched"}[d["kind"]]
        mats = lst([f"(Build_material QcF (vec_of_list {lst(m, qlit)}) (fun _ => q 0 1))" for m in ordered_mats(d, nc)])
        devs.append(f"(Build_device QcF {boxlit(b)} ({zlit(d['voxel'][0])}, {zlit(d['voxel'][1])}, {zlit(d['voxel'][2])}) {kind} {mats})")
    hist = lst([lst([f"(p_of_list {arr3(p)})" for p in step]) for step in out["pout"]])
    nx, ny, nz = case["shape"]
    return (f"(tabulate (run_history QcF (inv_comp QcF) qtoidx {init} {cur} {lst(devs)} {hist}) {nc}%nat {zlit(nx)} {zlit(ny)} {zlit(nz)})")


def coq_expr(case, out):
    if "error" in out:
        return "false"
    if out["ncomp"] == 9:
        return None
    fin = lst([lst(flat(comp), qlit) for comp in out["final"]])
    return f"qlist2_close (q 1 1000000000) {coq_model(case, out)} {fin}"


def F(h):
    return float.fromhex(h) if isinstance(h, str) else float(h)


def expected(case, out):
    """per-cell formula in double precision, written independently of the Coq model"""
    nc = out["ncomp"]
    nx, ny, nz = case["shape"]
    cur = [[[[F(v) for v in y] for y in x] for x in comp] for comp in out["base"]]
    inside = [[[False] * nz for _ in range(ny)] for _ in range(nx)]
    rng_checks = []
    for d, b, p in zip(devs_of(case, out), out["boxes"], out["pout"][-1]):
        ms = ordered_mats(d, nc)
        vx, vy, vz = d["voxel"]
        for x in range(b[0][0], b[0][1]):
            for y in range(b[1][0], b[1][1]):
                for z in range(b[2][0], b[2][1]):
                    v = F(p[(x - b[0][0]) // vx][(y - b[1][0]) // vy][(z - b[2][0]) // vz])
                    inside[x][y][z] = True
                    if nc == 9:
                        M = lambda t: np.asarray(t, dtype=np.float64).reshape(3, 3)
                        if d["kind"] == "cont":
                            r = np.linalg.inv(M(ms[0]) + v * (M(ms[1]) - M(ms[0])))
                        elif d["kind"] == "etch":
                            bgp = np.linalg.inv(M([cur[k][x][y][z] for k in range(9)]))
                            r = np.linalg.inv(bgp + v * (M(ms[0]) - bgp))
                        else:
                            r = np.linalg.inv(M(ms[int(v)]))
                        for k in range(9):
                            cur[k][x][y][z] = float(r.reshape(-1)[k])
                        continue
                    for k in range(nc):
                        if d["kind"] == "cont":
                            e0, e1 = ms[0][k], ms[1][k]
                            cur[k][x][y][z] = 1.0 / (e0 + v * (e1 - e0))
                        elif d["kind"] == "etch":
                            bgp = 1.0 / cur[k][x][y][z]
                            cur[k][x][y][z] = 1.0 / (bgp + v * (ms[0][k] - bgp))
                        else:
                            cur[k][x][y][z] = 1.0 / ms[int(v)][k]
    return cur, inside


def predicate(case, out):
    key = "+".join(d["kind"] for d in case["devices"])
    if "error" in out:
        return ("scene-error-" + key, out["error"] + " | " + out.get("tb", "")[-500:])
    nc = out["ncomp"]
    nx, ny, nz = case["shape"]
    for d, b, al, vox in zip(devs_of(case, out), out["boxes"], out["allowed"], out["vox"]):
        if [list(t) for t in b] != d["box"] or list(vox) != list(d["voxel"]):
            return ("placement-" + key, f"device placed at {b} with voxel {vox}, requested {d['box']} / {d['voxel']}")
        if [[F(v) for v in row] for row in al] != ordered_mats(d, nc):
            return ("order-" + key, f"allowed permittivities {al} are not the device materials in ascending order {ordered_mats(d, nc)}")
    exp, inside = expected(case, out)
    for k in range(nc):
        for x in range(nx):
            for y in range(ny):
                for z in range(nz):
                    g, e, b0 = F(out["final"][k][x][y][z]), exp[k][x][y][z], F(out["base"][k][x][y][z])
                    if not inside[x][y][z]:
                        if g != b0:
                            return ("outside-" + key, f"cell {(x, y, z)} comp {k} lies outside every device but changed {b0} -> {g}")
                    elif abs(g - e) > 1e-12 * max(1.0, abs(e)):
                        return ("value-" + key, f"cell {(x, y, z)} comp {k}: inverse permittivity {g}, documented mapping gives {e}")
                    if out["final"][k][x][y][z] != out["last"][k][x][y][z]:
                        return ("history-" + key, f"cell {(x, y, z)} comp {k}: after the history {g} != after only the last set {F(out['last'][k][x][y][z])}")
    # range of continuous (non-etched) devices written last
    for d, b in zip(devs_of(case, out), out["boxes"]):
        if d["kind"] != "cont" or len(case["devices"]) > 1 or nc == 9:
            continue
        ms = ordered_mats(d, nc)
        for k in range(nc):
            lo, hi = sorted([1.0 / ms[0][k], 1.0 / ms[1][k]])
            for x in range(b[0][0], b[0][1]):
                for y in range(b[1][0], b[1][1]):
                    for z in range(b[2][0], b[2][1]):
                        g = F(out["final"][k][x][y][z])
                        if not (lo - 1e-15 <= g <= hi + 1e-15):
                            return ("range-" + key, f"cell {(x, y, z)} comp {k}: {g} outside [{lo}, {hi}]")
    if out.get("other_changed", 0.0) != 0.0:
        return ("permeability-" + key, "inverse permeabilities changed by apply_params")
    if case.get("disp"):
        return predicate_disp(case, out, key)
    return None


def predicate_disp(case, out, key):
    """dispersion coefficient stacks: inside a device every pole slot holds the row of the selected device material (zero beyond its own poles;
    continuous devices: the linear blend of the two rows), outside nothing changes, histories do not matter"""
    D = out.get("disp")
    if D is None:
        return ("disp-missing-" + key, "the scene contains dispersive materials but the container has no dispersion coefficient arrays")
    if D["comp_len"] != 1:
        return None
    nx, ny, nz = case["shape"]
    A = lambda t: np.asarray(_unhex(t), dtype=np.float64)
    base, fin, last = [A(t) for t in D["base"]], [A(t) for t in D["final"]], [A(t) for t in D["last"]]
    exp = [b.copy() for b in base]
    inside = np.zeros((nx, ny, nz), dtype=bool)
    for d, b, p, tab in zip(devs_of(case, out), out["boxes"], out["pout"][-1], D["tables"]):
        order = sorted(range(len(d["mats"])), key=lambda j: first(d["mats"][j]))
        rows = [A(tab[j]) for j in order]                     # (3, npoles) per material, ascending permittivity
        vx, vy, vz = d["voxel"]
        for x in range(b[0][0], b[0][1]):
            for y in range(b[1][0], b[1][1]):
                for z in range(b[2][0], b[2][1]):
                    v = F(p[(x - b[0][0]) // vx][(y - b[1][0]) // vy][(z - b[2][0]) // vz])
                    inside[x, y, z] = True
                    for q in range(3):
                        exp[q][:, x, y, z] = rows[int(v)][q] if d["kind"] == "disc" else (1.0 - v) * rows[0][q] + v * rows[1][q]
    for q, nm in enumerate(("c1", "c2", "c3")):
        sc = max(float(np.abs(exp[q]).max()), float(np.abs(base[q]).max()), 1e-300)
        out_changed = np.argwhere((fin[q] != base[q]) & ~inside[None])
        if len(out_changed):
            return ("disp-outside-" + key, f"dispersive_{nm}: cell {tuple(int(t) for t in out_changed[0][1:])} pole {int(out_changed[0][0])} lies outside every device but changed")
        bad = np.argwhere(np.abs(fin[q] - exp[q]) > 1e-9 * sc)
        if len(bad):
            pz, x, y, z = (int(t) for t in bad[0])
            return ("disp-value-" + key, f"dispersive_{nm}: cell {(x, y, z)} pole slot {pz} holds {fin[q][pz, x, y, z]!r}, the selected device material gives {exp[q][pz, x, y, z]!r}")
        if np.any(fin[q] != last[q]):
            return ("disp-history-" + key, f"dispersive_{nm} after the history differs from applying only the last set")
    return None


def _unhex(x):
    return [_unhex(v) for v in x] if isinstance(x, list) else F(x)


def show_model(case, out):
    return None


def nontrivial(case, out):
    return "error" not in out and len(case["hist"]) >= 2


def classify(case, out):
    return "+".join(d["kind"] for d in case["devices"]) + ("/dispersive" if case.get("disp") else "") + f"/{out.get('ncomp', '?')}comp" + ("/backup" if out.get("has_backup") else "")


def search(ctx, broken):
    found, tried = [], 0
    sub = core.Ctx(PID, "quick", ctx.seed + 5)
    cases = [gen_case(sub.rng, i) for i in range(10)]
    outs = run_cases(sub, cases)
    for c, o in zip(cases, outs):
        tried += 1
        r = predicate(c, o)
        if r:
            found.append((c, o, r[0], r[1]))
    return found[:3], tried


LEVEL_TEXT = ("Theorems (any field, any devices incl. overlapping ones, abstract tensor inverse): value of a cell = value written by the last device "
              "containing it: inverse of the linear blend (continuous), inverse permittivity of the selected material (discrete), etch blend with the "
              "background; dispersive stacks blend/lookup; cells outside all devices unchanged; any history ++ [ps] == ps alone (etching via the backup); "
              "ordered-field range 1/e1 <= 1/(e0+p(e1-e0)) <= 1/e0. Tie: Qc model of the whole history vs apply_params on placed scenes.")
LEVEL_NOTE = ("Partial tie: dispersive coefficient stacks and 9-component tensors are proved on the model; against the implementation they are checked by the per-cell predicate "
              "(9-component inverses; c1..c3 pole stacks of devices over a dispersive background with a longer pole axis), not by executing the model; "
              "physical (non-uniform grid) design-voxel resampling is not modelled. Transform outputs are oracle inputs.")
TECHNIQUE = "Coq proof (induction over the device list / history, field + ordered-field reasoning) + differential runs of apply_params"
