"""C27 — placement does not depend on the order of objects or constraints."""
import itertools
import random

from lib import core
from lib import place_util as P

PID = "C27"
PROPS_FILE = "props/C27.v"
IMPL = "C27_impl.py"
COQ_HEADER = P.HEADER
SHARD = 12
RULE = ("each case = one constraint system (generator of C26: 2..8 objects, all five constraint classes, redundant constraints, "
        "one third perturbed) run under the identity order and 3 (quick) random permutations of the object list AND of the "
        "constraint list (3-constraint witness: all 6 orders); model `resolve false` on the permuted lists == implementation for "
        "every permutation; predicate: all orders agree on success and, on success, on every slice.  non-trivial = >= 2 "
        "constraints and at least one accepted run")
EXHAUSTIVE = {"quick": False, "thorough": False}
ASSUMPTIONS = ["as C26 (uniform grid, exact dyadic coordinates, no partial_real_position)",
               "which objects carry an error message, and the messages, may depend on the order (not part of the property)",
               "PARTIAL: the order-independence of the repaired solver is proved abstractly (set-once confluence) and tested "
               "concretely; the refinement of the concrete loop to the abstract system is not machine-checked"]
TRUSTED = ["correspondence harness (exact integer comparison)", "permutation differential test for the unproved refinement"]


def perms_for(rng, s, k):
    n, m = len(s["order"]), len(s["cons"])
    res = [{"order": list(s["order"]), "cperm": list(range(m))}]
    for _ in range(k):
        o = list(s["order"]); rng.shuffle(o)
        c = list(range(m)); rng.shuffle(c)
        res.append({"order": o, "cperm": c})
    # reversal is a good adversary for "became checkable late"
    res.append({"order": list(reversed(s["order"])), "cperm": list(reversed(range(m)))})
    return res


def gen_cases(ctx):
    w = P.witness_three((0, 1, 2))
    cases = [{"sys": w, "perms": [{"order": [0, 1, 2], "cperm": list(p)} for p in itertools.permutations(range(3))], "tag": "witness-three"},
             {"sys": P.witness_single(), "perms": [{"order": [0, 1], "cperm": [0]}, {"order": [1, 0], "cperm": [0]}], "tag": "witness-single"}]
    # staggered multi-axis constraint: every order of the five constraints (predicate only: partial_real_position is not in the Coq model)
    ws = P.witness_stagger()
    cases.append({"sys": ws, "perms": [{"order": [0, 1, 2, 3], "cperm": list(p)} for p in itertools.permutations(range(5))], "tag": "witness-stagger"})
    # stretched grid, SizeConstraint listed before / after the positioning of its reference (predicate only: the Coq model is the uniform-grid solver)
    wz = P.witness_size_first()
    cases.append({"sys": wz, "perms": [{"order": list(o), "cperm": list(p)} for o in ([0, 1, 2], [0, 2, 1]) for p in itertools.permutations(range(3))], "tag": "witness-size-first"})
    # witness_single + an unrelated object: acceptance must not depend on unrelated objects either (same constraint list)
    n = ctx.pick(54, 400)
    for i in range(n):
        small = i % 2 == 0
        s = P.gen_system(ctx.rng, nobj=ctx.rng.randint(2, 4) if small else None, valid=(i % 3 != 0), redundancy=0.8 if small else 0.5)
        cases.append({"sys": s, "perms": perms_for(ctx.rng, s, ctx.pick(2, 6)), "tag": "small" if small else "large"})
    return cases


def run_cases(ctx, cases):
    return core.run_impl_sharded(IMPL, cases, shard=ctx.pick(6, 8), timeout=3000)


def coq_expr(case, out):
    s = case["sys"]
    if s.get("real_pos") or s.get("widths"):
        return None
    parts = [P.agree_expr(s, p["order"], [s["cons"][i] for i in p["cperm"]], r) for p, r in zip(case["perms"], out["runs"])]
    return "(" + " && ".join(parts) + ")%bool"


def predicate(case, out):
    key = case.get("tag", "sys") + "-" + core.case_hash(case["sys"])[:8]
    runs = out["runs"]
    for r in runs:
        if "raised" in r:
            return (key, "raised: " + r["raised"])
    ok = [not r["errs"] for r in runs]
    if len(set(ok)) > 1:
        i, j = ok.index(True), ok.index(False)
        return (key, f"placement accepted under order {case['perms'][i]} but rejected under {case['perms'][j]} (errors on objects {runs[j]['errs']})")
    if all(ok):
        for p, r in zip(case["perms"][1:], runs[1:]):
            if r["slices"] != runs[0]["slices"]:
                d = [k for k in r["slices"] if r["slices"][k] != runs[0]["slices"][k]]
                return (key, f"resolved slices of objects {d} differ between order {case['perms'][0]} and {p}")
    return None


def nontrivial(case, out):
    return len(case["sys"]["cons"]) >= 2 and any("errs" in r and not r["errs"] for r in out["runs"])


def classify(case, out):
    oks = [("errs" in r and not r["errs"]) for r in out["runs"]]
    return case.get("tag", "sys").split("-")[0] + ":" + ("accepted" if all(oks) else "rejected" if not any(oks) else "MIXED")


def search(ctx, broken):
    rng = random.Random(ctx.seed + 91)
    found, tried = [], 0
    for rnd in range(ctx.pick(2, 10)):
        cases = []
        for _ in range(20):
            s = P.gen_system(rng, nobj=rng.randint(2, 4), valid=False, redundancy=0.9)
            cases.append({"sys": s, "perms": perms_for(rng, s, 3), "tag": "search"})
        outs = core.run_impl_sharded(IMPL, cases, shard=6, timeout=3000)
        tried += len(cases)
        for c, o in zip(cases, outs):
            r = predicate(c, o)
            if r:
                found.append((c, o, r[0], r[1]))
        if found:
            break
    return found[:3], tried


LEVEL_TEXT = ("PARTIAL.  Proved: abstract set-once confluence (all schedules of a monotone demand-rule system that end closed end in the "
              "same state; a closed end state excludes conflicts on every schedule; the stratified close/extend run is deterministic; "
              "the rule set of a permuted constraint list is the same); sweeps and grid-coordinate rule are instances; two successful "
              "orders satisfy the same constraint set (from C26).  `_refuted`: the solver as written accepts (C2,C1,C3) and rejects "
              "(C1,C3,C2).  Tie + evidence for the unproved refinement: model == implementation under every tested permutation and "
              "all permutations agree.")
LEVEL_NOTE = ("Genuine defect on the unchanged tree (same early exit as C26; fixes/C26.patch).  Missing in Coq: refinement of `iterate false` "
              "to the abstract rule system for all five constraint kinds, max_iter sufficiency.  Error messages/which object carries "
              "the message may differ by order.")
TECHNIQUE = "Coq proof (abstract confluence of set-once systems) + permutation differential runs against the model and against each other"
