"""C38 — equivalent grid descriptions give identical simulations."""
import numpy as np
from lib import core, yee_coq as Y
from props import C08

PID = "C38"
PROPS_FILE = "props/C38.v"
IMPL = "C08_impl.py"
COQ_HEADER = Y.HEADER
SHARD = 1
RULE = ("random placed scenes (all boundary kinds incl. PML, blocks, sources, detectors with co-location) run through run_fdtd on four grid "
        "descriptions: UniformGrid policy, RectilinearGrid.uniform, RectilinearGrid.custom with equally spaced edges, QuasiUniformGrid with equal "
        "spacings; fields and detector records must agree to 1e-9 relative and step counts exactly; model tie: hand-built containers on an explicit "
        "equal-spacing rectilinear grid stepped by forward() vs the Coq model (metric factors computed by the model)")
ASSUMPTIONS = ["float edges k*spacing make the spacings equal only up to round-off; the uniformity classification of the implementation decides which code path runs"]
TRUSTED = ["correspondence harness"]
LEVEL_TEXT = ("Theorem (every scene of the model incl. CPML layers, any number of steps): if every cell width equals the reference spacing, all metric factors "
              "are 1 and the scene steps exactly like its uniform description (E, H, psi). The public grid descriptions (UniformGrid, RectilinearGrid.uniform / "
              "custom, QuasiUniformGrid) are compared on the implementation through run_fdtd.")
LEVEL_NOTE = "Placement-time grid resolution (edges, time step from the CFL formula, uniformity detection) is covered by C37 and by the differential runs, not by this theorem."
TECHNIQUE = "Coq proof (metric factors reduce to 1 by field) + differential runs over grid descriptions"
GRIDS = [None, "rect_uniform", "rect_custom", "quasi", "uniform_shifted", "quasi_shifted"]


def gen_cases(ctx):
    cases = []
    for i in range(ctx.pick(2, 8)):
        s = C08.gen_scene(ctx.rng, ctx.quick, i)
        while any(n % 2 for n in s["shape"]):      # the quasi-uniform policy needs even cell counts
            s = C08.gen_scene(ctx.rng, ctx.quick, i)
        for d in s["detectors"]:
            d["opts"]["exact_interpolation"] = bool(i % 2)
        # spacings with digits below 1e-14 m (1.55 um / 34, 1 um / 30): the derived uniform spacing / time step must still be common to all descriptions
        s["spacing"] = [1.55e-6 / 34, 5e-8, 1e-6 / 30][i % 3]
        # an extra block positioned by partial_real_position (its centre relative to the centre of the domain): the same cells under every
        # description, wherever the description puts the coordinate origin (corner-origin explicit edges, shifted centres)
        sp = s["spacing"]
        s["blocks"] = list(s.get("blocks") or []) + [{"box": [[0, 2], [0, 1], [0, 2]], "eps": 6.0, "name": "ctr", "real_pos": [0.0, (0.5 if s["shape"][1] % 2 == 0 else 0.0) * sp, -sp]}]
        cases.append({"kind": "grids", "spec": s})
    # odd cell counts (the quasi-uniform policy rejects them) with a slab pinned to an absolute physical coordinate: the uniform policy and
    # explicit origin-centred edges must put it on the same cells
    for i in range(ctx.pick(1, 3)):
        n = [7, 6, 8]
        a = i % 3
        n[a] = [7, 9, 11][i % 3]
        box = [[1, 4], [1, 4], [2, 5]]
        coord = (-2.75 + i) * 5e-8          # -2.75 cells from the centre: a half-cell shift of the edges flips the nearest edge
        cases.append({"kind": "grids", "grids": [None, "rect_uniform", "rect_centered"],
                      "spec": {"shape": n, "spacing": 5e-8, "steps": 5, "thickness": 1,
                               "bt": {"min_x": "periodic", "max_x": "periodic", "min_y": "pec", "max_y": "pmc", "min_z": "periodic", "max_z": "periodic"},
                               "sources": [{"kind": "dipole", "cell": [3, 3, 3], "pol": 2}],
                               "detectors": [{"kind": "field", "box": [[0, n[0]], [0, n[1]], [0, n[2]]], "name": "fd", "opts": {"exact_interpolation": False}}],
                               "blocks": [{"box": box, "eps": 4.0, "real_lo": {"axis": a, "coord": coord}}]}})
    from props import C01
    for i in range(ctx.pick(2, 6)):
        c = C01.rand_case(ctx.rng, True, 4 * i)
        c.pop("kvec", None)
        c["bt"] = {k: ("periodic" if v == "bloch" else v) for k, v in c["bt"].items()}
        c["edges"] = [list(np.arange(n + 1) * 2.0 ** -23) for n in c["shape"]]
        c.update(kind="hand", steps=2)
        cases.append(c)
    return cases


def run_cases(ctx, cases):
    gr = [c for c in cases if c["kind"] == "grids"]
    flat = [{"spec": c["spec"], "grid": g} for c in gr for g in c.get("grids", GRIDS)]
    of = core.run_impl_sharded(IMPL, flat, shard=min(len(flat), 8), timeout=2400)
    oh = core.run_impl_sharded("yee_impl.py", [c for c in cases if c["kind"] == "hand"], jobs=3)
    it, ih = iter(of), iter(oh)
    return [[next(it) for _ in c.get("grids", GRIDS)] if c["kind"] == "grids" else next(ih) for c in cases]


def coq_expr(case, out):
    if case["kind"] != "hand":
        return None
    if "error" in out:
        return "false"
    from props import C01
    return C01.coq_expr(case, out)


def predicate(case, out):
    if case["kind"] == "hand":
        return ("driver-error", out["error"]) if "error" in out else None
    for o in out:
        if "error" in o:
            return ("driver-error", o["error"] + o.get("trace", "")[-300:])
    base = out[0]
    for g, o in zip(case.get("grids", GRIDS)[1:], out[1:]):
        if o["t"] != base["t"]:
            return (f"steps-differ:{g}", f"{g}: {o['t']} steps vs {base['t']}")
        for k in ["E", "H"] + list(base["det"]):
            a = C08.arr(base[k] if k in ("E", "H") else base["det"][k])
            b = C08.arr(o[k] if k in ("E", "H") else o["det"][k])
            sc = max(float(np.abs(a).max()), 1e-300)
            if a.shape != b.shape or float(np.abs(a - b).max()) > 1e-9 * sc:
                return (f"grid-differs:{g}:{k}", f"{k} on grid description {g} differs from the uniform policy by {float(np.abs(a - b).max()) / sc:.3e}")
    return None


def nontrivial(case, out):
    if case["kind"] == "hand":
        return "error" not in out
    return all("error" not in o for o in out) and float(np.abs(C08.arr(out[0]["E"])).max()) > 0


def classify(case, out):
    return case["kind"]
