"""C29 — sources and detectors see the device materials after parameters are applied."""
import itertools

from lib import core
from lib.core import zlit, lst, blit
from lib import translate as T
from lib import device_translate as DT

PID = "C29"
PROPS_FILE = "props/C29.v"
IMPL = "C29_impl.py"
COQ_HEADER = "From Coq Require Import ZArith Bool.\nFrom FV Require Import base.PyNum base.Util model.DeviceOverlap."
SHARD = 8
RULE = ("pairs: SimulationObject.check_overlap on box pairs — per axis every pair of intervals with end points in 0..4 (empty ones included) "
        "in three contexts for the other axes, random triples, inverted (malformed) intervals; model value must equal the implementation's. "
        "scenes: placed device(s) + dipole / plane / Gaussian sources, field detectors, material blocks in every relation to the device "
        "(inside, covering, partial, face/edge contact, apart); place_objects and apply_params run with logged apply calls: which objects are "
        "applied / re-applied must equal the model loops, and every object's post state is compared with a fresh apply against the post-device "
        "arrays. non-trivial = pair with a common cell, or scene where an intersecting object exists and the device changed the materials")
EXHAUSTIVE = {"quick": False, "thorough": False}
ASSUMPTIONS = ["objects' apply reads the material arrays only inside the object's own grid slice (hypothesis of C29_all_objects_current; observed: "
               "non-intersecting objects are never stale)",
               "the sources used have no random parts, so their state does not depend on the PRNG key (checked by the driver: keydep == 0)",
               "frame property of the device writes (C18) is a hypothesis of C29_all_objects_current"]
TRUSTED = ["translator harness/lib/translate.py + lib/device_translate.py (gen = model by reflexivity)",
           "driver-side logging wrapper around the objects' apply methods", "correspondence harness (exact boolean comparison)"]


def translate(ctx):
    src = core.REPO / "src/fdtdx/objects/object.py"
    tr = DT.TrLoop(subs={"self._grid_slice_tuple": "axis_of self", "other._grid_slice_tuple": "axis_of other"})
    text = DT.translate_method(src, "SimulationObject.check_overlap", "gen_check_overlap", "(self other : box)", "bool", ["self", "other"], tr)
    g = core.gen_path("Gen_C29")
    g.parent.mkdir(exist_ok=True)
    head = "From Coq Require Import ZArith List Bool.\nFrom FV Require Import base.PyNum model.DeviceOverlap.\nOpen Scope Z_scope.\n" + text
    g.write_text(head + "Lemma gen_eq_model : forall a b, gen_check_overlap a b = check_overlap a b.\nProof. reflexivity. Qed.\n")
    ok, out, err = core.coqc(g)
    msg = err or "gen = model (reflexivity)"
    if not ok:
        g2 = core.gen_path("Gen_C29_old")
        g2.write_text(head + "Lemma gen_eq_old : forall a b, gen_check_overlap a b = check_overlap_src_old a b.\nProof. reflexivity. Qed.\n")
        ok2, _, _ = core.coqc(g2)
        for ext in (".v", ".vo", ".glob", ".vok", ".vos"):
            p = g2.with_suffix(ext)
            if p.exists():
                p.unlink()
        if ok2:
            msg = "source text of check_overlap equals the UNCHANGED model check_overlap_src_old (refuted by C29_src_old_refuted), not the repaired one. " + msg[-300:]
    return [("object.py:SimulationObject.check_overlap", ok, msg)]


# ----------------------------------------------------------------------------- generators
def intervals(hi, empty=True):
    return [(s, e) for s in range(hi + 1) for e in range(s if empty else s + 1, hi + 1)]


CONTEXTS = [((2, 10), (4, 6)), ((3, 7), (3, 7)), ((0, 3), (3, 5)), ((0, 2), (5, 9))]   # other axes: inside, equal, touching, apart


def gen_pairs(ctx):
    rng = ctx.rng
    cases = []
    iv = intervals(4)
    for axis in range(3):
        for cx in CONTEXTS[: ctx.pick(3, 4)]:
            pairs = []
            for a, b in itertools.product(iv, iv):
                A = [cx[0]] * 3
                B = [cx[1]] * 3
                A[axis], B[axis] = a, b
                pairs.append([[list(t) for t in A], [list(t) for t in B]])
            cases.append({"kind": "pairs", "tag": f"axis{axis}", "pairs": pairs})
    iv6 = intervals(6, empty=False)
    for k in range(ctx.pick(4, 40)):
        cases.append({"kind": "pairs", "tag": "random", "pairs": [[[list(rng.choice(iv6)) for _ in range(3)], [list(rng.choice(iv6)) for _ in range(3)]]
                                                                   for _ in range(400)]})
    bad = [[[[rng.randint(-3, 6), rng.randint(-3, 6)] for _ in range(3)], [[rng.randint(-3, 6), rng.randint(-3, 6)] for _ in range(3)]] for _ in range(300)]
    cases.append({"kind": "pairs", "tag": "malformed", "pairs": bad})
    return cases


def rel_interval(rng, lo, hi, n, rel, thick=None):
    """an interval of [0,n) in relation `rel` to the device interval [lo,hi)"""
    if rel == "inside":
        a = rng.randint(lo + 1, hi - 2) if hi - lo >= 4 else lo + 1
        b = rng.randint(a + 1, hi - 1)
    elif rel == "cover":
        a, b = rng.randint(0, lo - 1), rng.randint(hi + 1, n)
    elif rel == "equal":
        a, b = lo, hi
    elif rel == "partial_lo":
        a, b = rng.randint(0, lo - 1), rng.randint(lo + 1, hi - 1)
    elif rel == "partial_hi":
        a, b = rng.randint(lo + 1, hi - 1), rng.randint(hi + 1, n)
    elif rel == "touch_lo":
        a, b = rng.randint(0, lo - 1), lo
    elif rel == "touch_hi":
        a, b = hi, rng.randint(hi + 1, n)
    elif rel == "apart_lo":
        a = rng.randint(0, max(0, lo - 3))
        b = rng.randint(a + 1, lo - 1)
    elif rel == "apart_hi":
        a = rng.randint(hi + 1, n - 1)
        b = rng.randint(a + 1, n)
    else:
        raise ValueError(rel)
    if thick is not None:
        if rel == "touch_lo":
            a = lo - thick
        b = a + thick
    return [a, b]


RELS = ["inside", "inside", "cover", "equal", "partial_lo", "partial_hi", "touch_lo", "touch_hi", "apart_lo", "apart_hi"]
INSIDE_LIKE = ["inside", "inside", "inside", "cover", "equal", "partial_lo", "partial_hi"]


def gen_scene(rng, idx):
    n = [14, 13, 15]
    dev = [[4, 10], [3, 9], [4, 10]]
    objs = []
    kinds = ["dipole", "plane", "gauss", "field", "plane", "dipole", "block", "plane"] + (["gmode"] if idx % 2 == 0 else [])
    # first three objects: the design-phase trigger (strictly inside on all axes), one per source kind
    for j, kind in enumerate(kinds):
        if j < 3 or rng.random() < 0.35:
            rels = ["inside"] * 3
        else:
            rels = [rng.choice(INSIDE_LIKE) for _ in range(3)]
            if rng.random() < 0.6:
                rels[rng.randrange(3)] = rng.choice(RELS)
        if kind == "dipole":
            rels = [r if r not in ("cover", "equal", "partial_lo", "partial_hi") else "inside" for r in rels]
            box = [rel_interval(rng, dev[a][0], dev[a][1], n[a], rels[a], thick=1) for a in range(3)]
            objs.append({"kind": kind, "box": box, "pol": rng.randrange(3)})
        elif kind in ("plane", "gauss", "gmode"):
            ax = rng.randrange(3)
            box = []
            for a in range(3):
                if a == ax:
                    r = rels[a] if rels[a] not in ("cover", "equal", "partial_lo", "partial_hi") else "inside"
                    box.append(rel_interval(rng, dev[a][0], dev[a][1], n[a], r, thick=1))
                else:
                    iv = rel_interval(rng, dev[a][0], dev[a][1], n[a], rels[a])
                    if iv[1] - iv[0] < 2:
                        iv = [iv[0], iv[0] + 2] if iv[0] + 2 <= n[a] else [iv[1] - 2, iv[1]]
                    box.append(iv)
            tr = [a for a in range(3) if a != ax]
            ep = [0, 0, 0]
            ep[rng.choice(tr)] = 1
            if kind == "gmode":      # keep the plane large enough for the mode profile
                for a in tr:
                    if box[a][1] - box[a][0] < 4:
                        box[a] = [max(0, box[a][0] - 2), min(n[a], box[a][0] - 2 + 5)] if box[a][0] >= 2 else [box[a][0], box[a][0] + 5]
            objs.append({"kind": kind, "box": box, "epol": ep, "dir": rng.choice("+-")})
        else:
            box = [rel_interval(rng, dev[a][0], dev[a][1], n[a], rels[a]) for a in range(3)]
            objs.append({"kind": kind, "box": box})
    return {"kind": "scene", "shape": n, "devices": [{"box": dev, "voxel": rng.choice([[1, 1, 1], [2, 1, 2], [3, 2, 1]])}],
            "objects": objs, "pseed": idx,
            # every other scene: the device's high-index material is dispersive (Lorentz pole), so the device also rewrites the
            # dispersion coefficient arrays that sources are set up against
            "dispersive": bool(idx % 2)}


def gen_cases(ctx):
    cases = gen_pairs(ctx)
    for i in range(ctx.pick(4, 40)):
        cases.append(gen_scene(ctx.rng, i))
    return cases


def run_cases(ctx, cases):
    p = [c for c in cases if c["kind"] == "pairs"]
    s = [c for c in cases if c["kind"] == "scene"]
    op = core.run_impl(IMPL, {"cases": p})["outs"] if p else []
    os_ = core.run_impl_sharded(IMPL, s, shard=min(len(s), ctx.pick(4, 6))) if s else []
    ip, is_ = iter(op), iter(os_)
    return [next(ip) if c["kind"] == "pairs" else next(is_) for c in cases]


# ----------------------------------------------------------------------------- Coq side
def boxlit(b):
    return "(" + ", ".join(f"({zlit(lo)}, {zlit(hi)})" for lo, hi in b) + ")"


def coq_expr(case, out):
    if case["kind"] == "pairs":
        ps = lst([f"({boxlit(a)}, {boxlit(b)})" for a, b in case["pairs"]])
        return f"blist_eqb (map (fun p => check_overlap (fst p) (snd p)) {ps}) {lst(out['vals'], blit)}"
    if "error" in out:
        return "false"
    devs = lst([boxlit(out["boxes"][d]) for d in out["devices"]])
    objs = lst([boxlit(out["boxes"][n]) for n in out["names"]])
    ov = lst([lst(out["overlap"][n], blit) for n in out["names"]])
    return (f"(blist_eqb (reapplied box (fun b => b) check_overlap {devs} {objs}) {lst(out['reapplied'], blit)} && "
            f"blist_eqb (map negb (reapplied box (fun b => b) check_overlap {devs} {objs})) {lst(out['placed'], blit)} && "
            f"list_eqb blist_eqb (map (fun o => map (fun d => check_overlap d o) {devs}) {objs}) {ov})%bool")


def show_model(case, out):
    if case["kind"] == "pairs":
        bad = []
        for (a, b), v in zip(case["pairs"], out["vals"]):
            if v != model_overlap(a, b):
                bad.append({"self": a, "other": b, "impl": v, "model": model_overlap(a, b)})
                if len(bad) >= 3:
                    break
        return bad
    return None


def model_overlap(a, b):
    """python mirror of the repaired predicate, only used to point at the differing pair in replays"""
    return all(not (a[i][1] < b[i][0] or b[i][1] < a[i][0]) for i in range(3))


def share_cell(a, b):
    return all(max(a[i][0], b[i][0]) < min(a[i][1], b[i][1]) for i in range(3))


# ----------------------------------------------------------------------------- the property on the implementation
def predicate(case, out):
    if case["kind"] == "pairs":
        for (a, b), v in zip(case["pairs"], out["vals"]):
            if share_cell(a, b) and not v:
                return ("overlap-missed", f"check_overlap(self={a}, other={b}) is False although the boxes share a cell")
        return None
    if "error" in out:
        return ("scene-error", out["error"] + " | " + out.get("tb", "")[-600:])
    devboxes = [out["boxes"][d] for d in out["devices"]]
    for name, st in out["stale"].items():
        if out["keydep"].get(name, 0) > 0:
            continue
        inter = any(share_cell(d, out["boxes"][name]) for d in devboxes)
        if st > 1e-9 and inter:
            i = int(name[1:])
            kind = case["objects"][i]["kind"]
            return (f"stale-{kind}", f"{kind} '{name}' at {out['boxes'][name]} intersects device {devboxes} but after apply_params its state differs "
                                     f"(rel. {st:.3g}) from a set-up against the post-device materials; re-applied: {out['reapplied'][out['names'].index(name)]}")
        st2 = (out.get("stale2") or {}).get(name, 0.0)
        if st2 > 1e-9 and inter:
            i = int(name[1:])
            kind = case["objects"][i]["kind"]
            return (f"stale-after-second-apply-{kind}", f"{kind} '{name}' at {out['boxes'][name]}: after a second apply_params on the returned containers its state "
                                                        f"differs (rel. {st2:.3g}) from a set-up against the current materials")
    return None


def nontrivial(case, out):
    if case["kind"] == "pairs":
        return any(share_cell(a, b) for a, b in case["pairs"])
    if "error" in out:
        return False
    devboxes = [out["boxes"][d] for d in out["devices"]]
    return out["changed"] > 0 and any(share_cell(d, out["boxes"][n]) for d in devboxes for n in out["stale"])


def classify(case, out):
    return case["kind"] + ("/" + case.get("tag", "") if case["kind"] == "pairs" else "")


def extra_evidence(ctx):
    return {}


def search(ctx, broken):
    found, tried = [], 0
    sub = core.Ctx(PID, "quick", ctx.seed + 31)
    cases = gen_pairs(sub) + [gen_scene(sub.rng, 100 + i) for i in range(3)]
    outs = run_cases(sub, cases)
    for c, o in zip(cases, outs):
        tried += len(c["pairs"]) if c["kind"] == "pairs" else 1
        r = predicate(c, o)
        if r:
            if c["kind"] == "pairs":   # shrink to the single failing pair
                for (a, b), v in zip(c["pairs"], o["vals"]):
                    if share_cell(a, b) and not v:
                        c, o = {"kind": "pairs", "tag": "shrunk", "pairs": [[a, b]]}, {"vals": [v]}
                        break
            found.append((c, o, r[0], r[1]))
    return found[:3], tried


LEVEL_TEXT = ("Theorems: repaired check_overlap reports every pair of boxes with a common cell (all boxes), equals 'closed boxes share a grid point' "
              "(x0<=x1) / 'common cell with the other box grown by one cell' (non-empty boxes); apply_params' loop re-applies every object that "
              "shares a cell with a device; place_objects∘apply_params leaves every object set up against the final materials (under locality of "
              "apply and the C18 frame property). The unchanged predicate is refuted (object strictly inside a device). Tie: translator regenerates "
              "check_overlap from object.py (gen = model by reflexivity); exhaustive per-axis interval pairs; instrumented placed scenes.")
LEVEL_NOTE = ("Genuine defect on the unchanged tree (fixes/C29.patch). What obj.apply computes is not modelled (abstract function); its locality "
              "is a hypothesis, observed on the implementation by the stale-state comparison. Mode sources/detectors (need a mode solver) are not in the scenes.")
TECHNIQUE = "Coq proof (lia on interval arithmetic, induction over the object list) + ast translator + instrumented differential runs"
