"""C13 — plane sources radiate only in their stated direction."""
from lib import core
from lib.core import qlit, lst

PID = "C13"
PROPS_FILE = "props/C13.v"
IMPL = "C13_impl.py"
COQ_HEADER = "From Coq Require Import List QArith Qcanon Bool. Import ListNotations.\nFrom FV Require Import base.Scalar base.Util model.Tfsf."
SHARD = 2
RULE = ("(a) injection rule: placed uniform / Gaussian plane sources on every axis and direction in random diagonal media; what update_E / update_H add to a "
        "zero field must equal the model's inject_E / inject_H of the source's own incident samples, nothing outside the source plane, nothing on the normal "
        "component; (b) measured leak: back/front Poynting flux ratio of uniform plane sources (CW and pulsed, >= 15 cells per wavelength, PML along the axis, "
        "periodic transversally, vacuum and homogeneous dielectrics eps 2.25 / 4 / 12) < 1e-3 and of Gaussian beams (radius >= 0.3 wavelengths) < 10 %")
ASSUMPTIONS = ["incident profiles, Yee time offsets and temporal amplitudes are read from the source object (oracle data)",
               "clause (b) is a measurement (test); thresholds are not proved"]
TRUSTED = ["correspondence harness (1e-12 relative on injections)"]
LEVEL_TEXT = ("PARTIAL. Theorem: on the 1-D Yee line the single-face TFSF injection rule nulls the field behind the source exactly, both directions, when the "
              "incident samples solve the discrete equations (pins component pairing, signs, cell and Yee time offsets). The rule is tied to update_E/update_H "
              "of placed sources by correspondence. The 1e-3 / 10 % leak thresholds are measured, not proved.")
LEVEL_NOTE = "Leak thresholds depend on numerical dispersion of the analytically sampled incident wave (DESIGN.md §5). Known finding: Gaussian beams of radius 0.3-0.4 wavelengths leak 10-11 % backward."
TECHNIQUE = "Coq proof (invariant on the 1-D Yee line) + injection-rule correspondence + measured directionality"


def gen_cases(ctx):
    cases = []
    combos = [(a, d) for a in range(3) for d in "+-"]
    for i, (axis, d) in enumerate(combos if not ctx.quick else ctx.rng.sample(combos, 3)):
        shape = [4, 5, 6]
        bt = {}
        for a, ax in enumerate("xyz"):
            bt["min_" + ax] = bt["max_" + ax] = "periodic" if a != axis else "pec"
        pol = [0.0, 0.0, 0.0]
        pol[(axis + 1) % 3], pol[(axis + 2) % 3] = 0.6, 0.8
        spec = {"shape": shape, "spacing": 5e-8, "steps": 6, "bt": bt,
                "sources": [{"kind": "gauss" if i % 3 == 2 else "plane", "axis": axis, "pos": 2, "dir": d, "pol": pol, "radius": 1.2e-7, "amp": 1.5,
                             "phase": [0.0, 0.7, 1.5707963267948966][i % 3]}],      # source-level carrier phase (WaveCharacter.phase_shift)
                "mats": {"seed": ctx.rng.randint(0, 10**6), "ncomp": 1, "pow2": True}}
        cases.append({"kind": "inject", "spec": spec, "steps": [0, 3]})
    leak = [(a, d) for a in range(3) for d in "+-"]
    for j, (axis, d) in enumerate(leak if not ctx.quick else ctx.rng.sample(leak, 2)):
        pol = [0.0, 0.0, 0.0]
        ang = ctx.rng.random() * 1.5
        import math
        pol[(axis + 1) % 3], pol[(axis + 2) % 3] = math.cos(ang), math.sin(ang)
        cases.append({"kind": "leak", "axis": axis, "dir": d, "pol": pol, "cpw": ctx.rng.choice([15, 16, 20]), "pulsed": bool(ctx.rng.random() < 0.5),
                      "eps": [ctx.rng.choice([2.25, 4.0, 12.0]), 1.0][j % 2],      # homogeneous dielectric / vacuum
                      "hgiven": bool(j % 2), "phase": [1.0, 0.0, 0.7][j % 3]})                                       # polarisation declared through H instead of E
    for r in ([0.3, 0.45] if ctx.quick else [0.3, 0.35, 0.4, 0.5, 0.8, 1.2]):
        axis = ctx.rng.randint(0, 2)
        pol = [0.0, 0.0, 0.0]
        pol[(axis + 1) % 3] = 1.0
        cases.append({"kind": "leak", "axis": axis, "dir": ctx.rng.choice("+-"), "pol": pol, "cpw": 16, "gauss": r})
    return cases


def run_cases(ctx, cases):
    return core.run_impl_sharded(IMPL, cases, shard=min(len(cases), 7), timeout=3000)


def flat(x):
    return [v for r in x for v in flat(r)] if isinstance(x, list) else [x]


def coq_expr(case, out):
    if case["kind"] != "inject":
        return None
    if "error" in out:
        return "false"
    parts = []
    tol = qlit(1e-12)
    for st in out["steps"]:
        rows = zip(*(flat(st[k]) for k in ("dEa", "dEb", "dHa", "dHb", "Ha", "Hb", "Ea", "Eb", "ie_a", "ie_b", "im_a", "im_b")))
        for dEa, dEb, dHa, dHb, Ha, Hb, Ea, Eb, iea, ieb, ima, imb in rows:
            parts.append(f"(let e := inject_E QcF {qlit(out['sign'])} {qlit(out['c'])} {qlit(iea)} {qlit(ieb)} {qlit(Ha)} {qlit(Hb)} in "
                         f"let h := inject_H QcF {qlit(out['sign'])} {qlit(out['c'])} {qlit(ima)} {qlit(imb)} {qlit(Ea)} {qlit(Eb)} in "
                         f"Qc_close {tol} (fst e) {qlit(dEa)} && Qc_close {tol} (snd e) {qlit(dEb)} && Qc_close {tol} (fst h) {qlit(dHa)} && Qc_close {tol} (snd h) {qlit(dHb)})")
    return "(" + " && ".join(parts[:400]) + ")%bool"


def predicate(case, out):
    if "error" in out:
        return ("driver-error", out["error"] + out.get("trace", "")[-300:])
    if case["kind"] == "inject":
        for st in out["steps"]:
            if st["outside_maxabs"] != 0.0 or st["normal_maxabs"] != 0.0:
                return ("injection-off-plane", f"source adds field outside its plane or on the normal component: {st['outside_maxabs']}, {st['normal_maxabs']}")
        return None
    if case.get("gauss") is None:
        if out["ratio"] > 1e-3:
            return (f"uniform-leak:axis={case['axis']};dir={case['dir']};pulsed={case['pulsed']};eps={case.get('eps', 1.0)};hgiven={bool(case.get('hgiven'))}", f"uniform plane source sends {out['ratio']:.3e} of its power backward")
        return None
    if out["ratio"] > 0.10:
        r = case["gauss"]
        key = "gaussian-backward-leak-radius-0.3-to-0.4-wavelengths" if r < 0.4 else f"gaussian-leak:r={r}"
        return (key, f"Gaussian beam of radius {r} wavelengths sends {out['ratio'] * 100:.1f} % of its power backward")
    return None


def nontrivial(case, out):
    return "error" not in out and (case["kind"] == "inject" or out["front"] > 0)


def classify(case, out):
    return case["kind"] + ("|gauss" if case.get("gauss") or (case["kind"] == "inject" and case["spec"]["sources"][0]["kind"] == "gauss") else "|uniform")
