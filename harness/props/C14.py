"""C14 — on/off schedules decide exactly when sources inject and detectors record."""
import itertools

from lib import core
from lib.core import zlit, qlit, lst, blit

PID = "C14"
PROPS_FILE = "props/C14.v"
IMPL = "C14_impl.py"
COQ_HEADER = """From Coq Require Import ZArith QArith Qcanon Bool List.
From FV Require Import base.Scalar base.PyNum base.Util base.RecorderBase model.Switch.
Import ListNotations. Open Scope Z_scope.
Definition ecode {A} (r : sres A) : Z := match r with SOk _ => 0 | ErrNeedPeriod => 1 | ErrStartSpec => 2 | ErrEndSpec => 3 | ErrNever => 4 | ErrIndex => 5 | ErrZeroDiv => 6 end.
Definition chk_on (r : sres (list bool)) (c : Z) (l : list bool) : bool := (ecode r =? c) && match r with SOk m => blist_eqb m l | _ => true end.
Definition chk_idx (r : sres (list bool)) (c : Z) (l : list Z) : bool := (ecode r =? c) && match r with SOk m => zlist_eqb (idx_map m) l | _ => true end.
Definition chk_b (r : sres bool) (c : Z) (b : bool) : bool := (ecode r =? c) && match r with SOk m => Bool.eqb m b | _ => true end.
Fixpoint chk_rows (m : list Z) (c : list (list Z)) : bool := match m, c with [], [] => true | t :: m', l :: c' => existsb (Z.eqb t) l && chk_rows m' c' | _, _ => false end.
Definition mksw (a b c d e f g : option Qc) (fx : option (list Z)) (off : bool) (iv : Z) : switch QcOF := Build_switch (K := QcOF) a b c d e f g fx off iv."""
SHARD = 40
RULE = ("switch cases: every presence pattern of the 7 time parameters (128) x value assignments, intervals {1,2,3,0,-2}, always-off, "
        "fixed lists (negative / out-of-range / duplicate entries), T <= 16, dyadic dt: on-list, index map and is_on_at_time_step of every step "
        "(value or error kind) model == implementation, exact; run cases: placed scene with a switched source, an always-on and a switched "
        "field detector on random initial fields: detector rows, update_E/update_H gating against the twin scene with the source always off; "
        "non-trivial = at least one on and one off step")
EXHAUSTIVE = {"quick": True, "thorough": True}
ASSUMPTIONS = ["times and dt in the switch cases are dyadic rationals, so the float products/sums of is_on_at_time_step are exact",
               "run cases: switch parameters are multiples of dt chosen so that window bounds never tie with a step time after rounding",
               "gated / det_step model the lax.cond in update_E/update_H/update_detector_states and the .at[idx].set of the detector update"]
TRUSTED = ["correspondence harness (exact comparison of booleans / integers / error kinds)"]

KEYS = ("start_time", "start_after_periods", "end_time", "end_after_periods", "on_for_time", "on_for_periods", "period")


def sw_dict(vals, fixed=None, off=False, interval=1):
    d = dict(zip(KEYS, vals))
    d.update(fixed=fixed, off=off, interval=interval)
    return d


def gen_cases(ctx):
    rng = ctx.rng
    cases = []
    choices = {"start_time": [0.0, 1.5, 3.0], "start_after_periods": [0.5, 1.0, 2.25], "end_time": [4.0, 6.5, 2.0],
               "end_after_periods": [1.5, 3.0, 0.25], "on_for_time": [2.0, 3.5, 0.5], "on_for_periods": [1.0, 0.75, 2.5], "period": [2.0, 1.0, 4.0]}
    # every presence pattern, with two (quick) / six (thorough) value assignments each
    for pat in itertools.product([False, True], repeat=7):
        for rep in range(ctx.pick(2, 6)):
            vals = [rng.choice(choices[k]) if p else None for k, p in zip(KEYS, pat)]
            T = rng.randint(1, 16); dt = rng.choice([0.5, 0.25, 1.0])
            iv = rng.choice([1, 1, 2, 3, 0, -2]); off = rng.random() < 0.08
            cases.append({"kind": "switch", "T": T, "dt": dt, "sw": sw_dict(vals, None, off, iv)})
    # plain windows: all (start, end) on a grid, T = 8
    for a in [None, 0.0, 1.0, 2.5, 7.0, 9.0]:
        for b in [None, 0.0, 2.5, 3.0, 7.0]:
            for iv in (1, 2):
                cases.append({"kind": "switch", "T": 8, "dt": 0.5, "sw": sw_dict([a and a * 0.5, None, b and b * 0.5, None, None, None, None], None, False, iv)})
    # fixed lists
    for fx in [[], [0], [1, 2, 5], [5, 1, 1], [-1], [-8, 3], [7, 0], [8], [-9], [2, 12]]:
        for off in (False, True):
            cases.append({"kind": "switch", "T": 8, "dt": 1.0, "sw": sw_dict([None] * 7, fx, off, 3)})
    cases.append({"kind": "switch", "T": 0, "dt": 1.0, "sw": sw_dict([None] * 7, None, False, 1)})
    # runs
    runs = [({"start_time": 2, "end_time": 5.5}, {"start_time": 1, "interval": 2}, "dipole"),
            ({"fixed": [1, 2, 5]}, {"fixed": [0, 3, 4, 6]}, "plane"),
            ({"start_after_periods": 0.5, "on_for_periods": 1.25, "period": 2}, {"end_time": 4.5, "interval": 3}, "dipole"),
            ({"interval": 2}, {"off": True}, "plane")]
    for ssw, dsw, kind in (runs if not ctx.quick else [runs[0], runs[3]]):      # quick: a windowed pair and the always-off detector
        src = ({"kind": "dipole", "cell": [3, 3, 4], "pol": 2, "switch": ssw} if kind == "dipole" else
               {"kind": "plane", "axis": 2, "pos": 4, "dir": "+", "pol": [1.0, 0.5, 0.0], "switch": ssw})
        spec = {"shape": [6, 6, 8], "spacing": 5e-8, "steps": 7, "thickness": 2,
                "bt": {"min_x": "periodic", "max_x": "periodic", "min_y": "pec", "max_y": "pec", "min_z": "pml", "max_z": "pml"},
                "sources": [src, {"kind": "dipole", "cell": [2, 2, 5], "pol": 0}],
                "detectors": [{"kind": "field", "box": [[1, 5], [1, 4], [3, 6]], "name": "full"},
                              {"kind": "field", "box": [[1, 5], [1, 4], [3, 6]], "name": "gated", "switch": dsw}]}
        cases.append({"kind": "run", "spec": spec, "ssw": ssw, "dsw": dsw})
    # several detectors in one scene, a never-active one listed before the others (each detector must follow its OWN schedule)
    for order in ctx.pick([0], [0, 1, 2]):
        dets = [("off0", {"off": True}), ("d1", {"fixed": [1, 2, 5]}), ("d2", {"start_time": 1, "interval": 2}), ("d3", {"end_time": 4.5}), ("off1", {"fixed": []})]
        dets = dets[order:] + dets[:order]
        spec = {"shape": [6, 6, 8], "spacing": 5e-8, "steps": 7, "thickness": 2,
                "bt": {"min_x": "periodic", "max_x": "periodic", "min_y": "pec", "max_y": "pec", "min_z": "pml", "max_z": "pml"},
                "sources": [{"kind": "dipole", "cell": [3, 3, 4], "pol": 2}, {"kind": "dipole", "cell": [2, 2, 5], "pol": 0}],
                "detectors": [{"kind": "field", "box": [[1, 5], [1, 4], [3, 6]], "name": nm, "switch": sw} for nm, sw in dets[:2]]
                             + [{"kind": "field", "box": [[1, 5], [1, 4], [3, 6]], "name": "full"}]
                             + [{"kind": "field", "box": [[1, 5], [1, 4], [3, 6]], "name": nm, "switch": sw} for nm, sw in dets[2:]]}
        cases.append({"kind": "multi", "spec": spec, "sws": dict(dets)})
    # gating through update_E / update_H for every kind of schedule at once: one scene, one dipole per schedule (distinct cells),
    # zero fields, so whatever appears at a source's cell after update_E / update_H is that source's injection
    T = 10
    pats = [{}, {"on_for_time": 3.25}, {"on_for_periods": 1.5, "period": 2}, {"start_time": 4}, {"end_time": 5.5}, {"start_after_periods": 1.5, "period": 2},
            {"end_after_periods": 2.25, "period": 2}, {"start_time": 2, "on_for_time": 3.5}, {"end_time": 8, "on_for_time": 2.5}, {"interval": 3},
            {"fixed": [1, 4, 8]}, {"off": True}, {"on_for_time": 4.25, "interval": 2}, {"start_after_periods": 1, "on_for_periods": 2, "period": 1.5}]
    if not ctx.quick:
        for _ in range(10):
            k = rng.sample(["start_time", "end_time", "on_for_time"], rng.randint(1, 2))
            pats.append({kk: rng.choice([1.0, 2.5, 4.25, 6.0]) for kk in k})
    srcs = []
    for n, sw in enumerate(pats):
        srcs.append({"kind": "dipole", "cell": [1 + n % 4, 1 + (n // 4) % 4, 2 + n // 16 + (n % 2)], "pol": n % 3, "mag": bool(n % 5 == 4), "switch": sw or None, "name": f"s{n}"})
    cells = {tuple(x["cell"]) for x in srcs}
    if len(cells) == len(srcs):
        spec = {"shape": [6, 6, 6], "spacing": 5e-8, "steps": T, "bt": {f: "periodic" for f in ("min_x", "max_x", "min_y", "max_y", "min_z", "max_z")}, "sources": srcs}
        cases.append({"kind": "gate", "spec": spec, "sws": pats})
    # switches replaced on the PLACED objects followed by apply_params (what calculate_sparam does to silence the non-input ports)
    init = [None, {"end_time": 5.5}, {"interval": 2}, {"interval": 3}, None]
    edits = {"s0": {"off": True}, "s1": {"start_time": 4}, "s2": {"fixed": [1, 4, 8]}, "s4": {"off": True}}
    srcs = [{"kind": "dipole", "cell": [1 + n, 2, 3], "pol": n % 3, "mag": bool(n == 2), "switch": sw, "name": f"s{n}"} for n, sw in enumerate(init[:4])]
    srcs.append({"kind": "plane", "axis": 2, "pos": 1, "dir": "+", "pol": [1.0, 0.5, 0.0], "switch": None, "name": "s4"})
    spec = {"shape": [6, 6, 6], "spacing": 5e-8, "steps": T, "bt": {f: "periodic" for f in ("min_x", "max_x", "min_y", "max_y", "min_z", "max_z")}, "sources": srcs}
    cases.append({"kind": "edit", "spec": spec, "edits": edits, "final": [edits.get(f"s{n}", init[n]) or {} for n in range(5)]})
    return cases


def run_cases(ctx, cases):
    a = [c for c in cases if c["kind"] == "switch"]
    b = [c for c in cases if c["kind"] in ("run", "gate", "multi", "edit")]
    from concurrent.futures import ThreadPoolExecutor
    with ThreadPoolExecutor(2) as ex:      # the pure-Python switch cases and the scene runs side by side
        fa = ex.submit(lambda: core.run_impl(IMPL, {"cases": a})["outs"] if a else [])
        fb = ex.submit(lambda: core.run_impl_sharded(IMPL, b, shard=min(4, len(b))) if b else [])
        oa, ob = fa.result(), fb.result()
    ia, ib = iter(oa), iter(ob)
    return [next(ia) if c["kind"] == "switch" else next(ib) for c in cases]


# ----------------------------------------------------------------------------- Coq side
def sw_coq(sw, scale=1.0):
    """scale: run cases give times in units of dt (the model then runs with dt = 1)"""
    def o(k):
        v = sw.get(k)
        return "None" if v is None else f"(Some {qlit(float(v))})"
    fx = sw.get("fixed")
    fxs = "None" if fx is None else f"(Some {lst(fx, zlit)})"
    return f"(mksw {' '.join(o(k) for k in KEYS)} {fxs} {blit(bool(sw.get('off')))} {zlit(sw.get('interval', 1) if sw.get('interval') is not None else 1)})"


def split(x):
    return (x["error"], []) if isinstance(x, dict) else (0, x)


def coq_expr(case, out):
    if "crash" in out:
        return "false"
    if case["kind"] == "switch":
        T, dt, sw = case["T"], case["dt"], sw_coq(case["sw"])
        c1, on = split(out["on"]); c2, idx = split(out["idx"])
        parts = [f"chk_on (calculate_on_list QcOF {sw} {zlit(T)} {qlit(dt)}) {zlit(c1)} {lst(on, blit)}",
                 f"chk_idx (calculate_on_list QcOF {sw} {zlit(T)} {qlit(dt)}) {zlit(c2)} {lst(idx, zlit)}"]
        for t, r in enumerate(out["ison"]):
            c, b = (r["error"], False) if isinstance(r, dict) else (0, r)
            parts.append(f"chk_b (is_on_at_time_step QcOF {sw} (fofZ (K := QcF) {zlit(t)} * {qlit(dt)})%Qc) {zlit(c)} {blit(b)}")
        return "(" + " && ".join(parts) + ")%bool"
    if case["kind"] == "edit":
        T = out["T"]
        parts = []
        for sw, inj in zip(case["final"], out["inj"]):
            parts.append(f"match calculate_on_list QcOF {sw_coq(sw)} {zlit(T)} (q 1 1) with SOk on => forallb (fun p => implb (snd p) (fst p)) (combine on {lst(inj, blit)}) | _ => false end")
        return "(" + " && ".join(parts) + ")%bool"
    if case["kind"] == "multi":
        T = out["T"]
        parts = []
        for nm, d in out["dets"].items():
            sq = sw_coq(case["sws"][nm])
            parts.append(f"chk_on (calculate_on_list QcOF {sq} {zlit(T)} (q 1 1)) 0 {lst(d['on'], blit)}")
            if d["rows"] and any(d["on"]):
                parts.append(f"match calculate_on_list QcOF {sq} {zlit(T)} (q 1 1) with SOk on => chk_rows (det_run on (fun t => t) (-1) {zlit(T)}) {lst(d['match'], lambda l: lst(l, zlit))} | _ => false end")
        return "(" + " && ".join(parts) + ")%bool"
    if case["kind"] == "gate":
        T = out["T"]
        parts = []
        for sw, on, inj in zip(case["sws"], out["on"], out["inj"]):
            sq = sw_coq(sw)
            parts.append(f"chk_on (calculate_on_list QcOF {sq} {zlit(T)} (q 1 1)) 0 {lst(on, blit)}")
            parts.append(f"match calculate_on_list QcOF {sq} {zlit(T)} (q 1 1) with SOk on => forallb (fun p => implb (snd p) (fst p)) (combine on {lst(inj, blit)}) | _ => false end")
        return "(" + " && ".join(parts) + ")%bool"
    T = out["T"]
    s, d = sw_coq(case["ssw"]), sw_coq(case["dsw"])
    gate = [a or b for a, b in zip(out["gate_E"], out["gate_H"])]
    return ("(" + " && ".join([
        f"chk_on (calculate_on_list QcOF {s} {zlit(T)} (q 1 1)) 0 {lst(out['src_on'], blit)}",
        f"chk_idx (calculate_on_list QcOF {s} {zlit(T)} (q 1 1)) 0 {lst(out['src_idx'], zlit)}",
        f"chk_on (calculate_on_list QcOF {d} {zlit(T)} (q 1 1)) 0 {lst(out['det_on'], blit)}",
        f"chk_idx (calculate_on_list QcOF {d} {zlit(T)} (q 1 1)) 0 {lst(out['det_idx'], zlit)}",
        # detector rows: the model's rows with obs = identity are the matching full-detector row numbers
        f"match calculate_on_list QcOF {d} {zlit(T)} (q 1 1) with SOk on => chk_rows (det_run on (fun t => t) (-1) {zlit(T)}) {lst(out['match'], lambda l: lst(l, zlit))} | _ => false end",
        # gating: a step where the source changed the update must be an on step of the model
        f"match calculate_on_list QcOF {s} {zlit(T)} (q 1 1) with SOk on => forallb (fun p => implb (snd p) (fst p)) (combine on {lst(gate, blit)}) | _ => false end",
    ]) + ")%bool")


# ----------------------------------------------------------------------------- the property on the implementation
def expected_window(sw, dt):
    """documented rule, evaluated independently (floats are exact dyadics here); returns ('err', kind) or (lo, hi)"""
    g = lambda k: sw.get(k)
    per = g("period")
    if any(g(k) is not None for k in ("start_after_periods", "end_after_periods", "on_for_periods")) and per is None:
        return ("err", 1)
    mp = lambda k: None if g(k) is None else g(k) * per
    ends = [x for x in (g("end_time"), mp("end_after_periods")) if x is not None]
    durs = [x for x in (g("on_for_time"), mp("on_for_periods")) if x is not None]
    starts = [x for x in (g("start_time"), mp("start_after_periods")) if x is not None]
    s_specs = starts + [e - d for e in ends for d in durs]
    if len(s_specs) > 1:
        return ("err", 2)
    base = starts if starts else ([0.0] if not s_specs else [])
    e_specs = ends + [s + d for s in base for d in durs]
    if len(e_specs) > 1:
        return ("err", 3)
    return (s_specs[0] if s_specs else 0.0, e_specs[0] if e_specs else float("inf"))


def expected_on(sw, T, dt):
    if sw.get("fixed") is not None:
        if any(i < -T or i >= T for i in sw["fixed"]):
            return ("err", 5)
        on = [False] * T
        for i in sw["fixed"]:
            on[i % T if T else 0] = True
        return on
    if sw.get("off"):
        return [False] * T
    w = expected_window(sw, dt)
    if w[0] == "err":
        return w if T > 0 else []
    iv = sw.get("interval", 1)
    on = []
    for t in range(T):
        inside = w[0] <= t * dt <= w[1]
        if inside and iv == 0:
            return ("err", 6)
        on.append(bool(inside and t % iv == 0))
    return on


def predicate(case, out):
    if "crash" in out:
        return ("crash", out["crash"])
    if case["kind"] == "switch":
        sw, T, dt = case["sw"], case["T"], case["dt"]
        tag = "sw-" + core.case_hash(case)[:10]
        exp = expected_on(sw, T, dt)
        got = out["on"]
        if isinstance(exp, tuple):
            if not (isinstance(got, dict) and got["error"] == exp[1]):
                return (tag, f"expected error kind {exp[1]} for {sw}, got {got}")
            return None
        if got != exp:
            return (tag, f"on-list {got} differs from the window rule {exp} for {sw} (T={T}, dt={dt})")
        idx, cnt = [], 0
        for b in exp:
            idx.append(cnt if b else -1); cnt += b
        if out["idx"] != idx:
            return (tag, f"index map {out['idx']} is not the running count {idx}")
        return None
    if case["kind"] == "gate":
        T = out["T"]
        seen = 0
        for n, (sw, on, inj) in enumerate(zip(case["sws"], out["on"], out["inj"])):
            exp = expected_on(sw, T, 1.0)
            tag = "gate-" + ",".join(f"{k}" for k in sorted(sw)) if sw else "gate-default"
            if on != exp:
                return (tag, f"source with schedule {sw}: on array {on} differs from the window rule {exp}")
            bad = [t for t in range(T) if inj[t] and not exp[t]]
            if bad:
                return (tag, f"source with schedule {sw} injects at inactive steps {bad} (active steps {[t for t in range(T) if exp[t]]})")
            seen += sum(1 for t in range(T) if inj[t])
        if seen < 10:
            return ("gate-vacuous", "sources almost never inject: vacuous gating test")
        return None
    if case["kind"] == "edit":
        T = out["T"]
        for nm, sw, inj in zip(out["names"], case["final"], out["inj"]):
            exp = expected_on(sw, T, 1.0)
            bad = [t for t in range(T) if inj[t] and not exp[t]]
            if bad:
                return (f"edited-switch-{nm}-" + ",".join(sorted(sw)), f"source {nm} carries the schedule {sw} after its switch was replaced and apply_params ran, "
                        f"but injects at inactive steps {bad} (active steps {[t for t in range(T) if exp[t]]})")
            if any(exp) and not any(inj[t] for t in range(T) if exp[t]):
                return (f"edited-switch-vacuous-{nm}", f"source {nm} never injects at an active step")
        return None
    if case["kind"] == "multi":
        T = out["T"]
        for nm, d in out["dets"].items():
            on = expected_on(case["sws"][nm], T, 1.0)
            times = [t for t in range(T) if on[t]]
            tag = f"multi-{nm}-after-{out['order'][:out['order'].index(nm)]}"
            if d["on"] != on:
                return (tag, f"detector {nm}: on array {d['on']} differs from the window rule {on}")
            if not times:
                if d["rows"] > 1 or not all(d["zero_rows"]):
                    return (tag, f"never-active detector {nm} recorded something ({d['rows']} rows)")
                continue
            if d["rows"] != len(times) or any(t not in m for t, m in zip(times, d["match"])):
                return (tag, f"detector {nm} (listed after {out['order'][:out['order'].index(nm)]}): rows equal full rows {d['match']}, its own schedule is on at {times}")
        return None
    T = out["T"]
    tag = "run-" + core.case_hash({"s": case["ssw"], "d": case["dsw"]})[:10]
    s_on = expected_on(case["ssw"], T, 1.0); d_on = expected_on(case["dsw"], T, 1.0)
    if out["src_on"] != s_on or out["det_on"] != d_on:
        return (tag, f"placed objects' on arrays {out['src_on']} / {out['det_on']} differ from the window rule {s_on} / {d_on}")
    times = [t for t in range(T) if d_on[t]]
    if out["rows"] != len(times) or len(out["match"]) != len(times) or any(t not in m for t, m in zip(times, out["match"])) or out["full_rows"] != T:
        return (tag, f"detector rows (equal to full rows {out['match']}, count {out['rows']}) are not the observations at the on steps {times}")
    if len(times) >= 2 and sum(1 for m in out["match"] if len(m) == 1) < 2:
        return (tag, "fewer than two detector rows are uniquely identifiable (vacuous row test)")
    for t in range(T):
        if (out["gate_E"][t] or out["gate_H"][t]) and not s_on[t]:
            return (tag, f"source changed the update at inactive step {t}")
    if any(s_on) and not any(out["gate_E"][t] or out["gate_H"][t] for t in range(T) if s_on[t]):
        return (tag, "source never injects at an active step (vacuous gating test)")
    return None


def nontrivial(case, out):
    if case["kind"] in ("gate", "multi", "edit"):
        return "crash" not in out
    on = out.get("on") if case["kind"] == "switch" else out.get("det_on")
    return isinstance(on, list) and any(on) and not all(on)


def classify(case, out):
    if case["kind"] in ("run", "gate", "multi", "edit"):
        return case["kind"]
    on = out.get("on")
    if isinstance(on, dict):
        return f"error-{on['error']}"
    return "fixed" if case["sw"].get("fixed") is not None else ("off" if case["sw"].get("off") else "window")


def search(ctx, broken):
    cases = [c for c in gen_cases(core.Ctx(PID, "thorough", ctx.seed + 1)) if c["kind"] == "switch"][:400]
    outs = run_cases(ctx, cases)
    found = [(c, o, *predicate(c, o)) for c, o in zip(cases, outs) if predicate(c, o)]
    return found[:3], len(cases)


LEVEL_TEXT = ("Theorems: is_on_at_time_step == documented window rule (one start spec or 0, one end spec or +inf, error kinds) for every parameter "
              "combination and any ordered field; on-list = window and interval multiple / exactly the fixed steps (Python indexing, error outside [-T,T)); "
              "index map = -1 off / number of earlier on steps, order-preserving bijection of the on steps onto [0,count); off step = identity update; "
              "detector state after T steps = list of observations at the on steps in order (all list lengths).  Tie: exhaustive presence patterns, run_fdtd scenes.")
LEVEL_NOTE = ("Quirks kept in the model: a fixed list ignores is_always_off and interval; interval 0 raises only when a step is inside the window. "
              "The field update itself (what an active source adds) belongs to C02/C13; here only the gating and row bookkeeping.")
TECHNIQUE = "Coq proof (128-case computation for the window rule, list induction for index map and detector rows) + differential correspondence"
