"""C15 — detectors record the co-located fields of their region."""
import itertools

import numpy as np

from lib import core
from lib.core import qlit, lst

PID = "C15"
PROPS_FILE = "props/C15.v"
IMPL = "C15_impl.py"
COQ_HEADER = ("From Coq Require Import ZArith QArith Qcanon Bool.\n"
              "From FV Require Import base.Scalar base.Sums base.Util base.DetectorsBase base.ColocateBase model.Detectors model.Colocate.\n"
              "Local Open Scope bool_scope.")
SHARD = 1
RULE = ("each case = one placed scene (uniform / rectilinear dyadic grid; zero, periodic, mixed, Bloch(complex) halos; electric and "
        "magnetic config.symmetry planes with pml/pec/periodic/bloch far sides), random integer/4 E, H, H_prev on the (reduced) "
        "domain, FieldDetectors on the full box, a strictly interior box, corner cells, face/edge-touching boxes, a raw "
        "(exact_interpolation=False) box and a component subset; one update_detector_states call (one case: a forward() step with "
        "record_detectors=True); every recorded row == model row (exact for real uniform scenes, 1e-9 otherwise); predicate = "
        "independent numpy co-location oracle; non-trivial = non-zero fields and at least one interior and one edge-touching exact detector")
EXHAUSTIVE = {"quick": False, "thorough": False}
ASSUMPTIONS = ["the boundary list, reduced volume shape, symmetry tuple, cell widths and detector slices that update_detector_states reads "
               "from objects/config are taken from the placed scene as reported by the driver (placement itself is C18-C22)",
               "Bloch phase exp(i k L) is an oracle value reported by the implementation; the model multiplies the halo by it / its conjugate",
               "rectilinear, Bloch and forward-step cases are compared with tolerance 1e-9 (float division / non-dyadic values); real uniform cases exactly"]
TRUSTED = ["correspondence harness (exact rational literals of inputs, Qc_eqb / Qc_close_abs 1e-9)",
           "Gaussian-rational field instance base/ColocateBase.v used to execute the generic model on complex fields"]
LEVEL_TEXT = ("Theorems (all grid sizes, boxes, boundary-object lists, symmetry tuples, fields over any field K; uniform and width-weighted): "
              "the haloed-block path of update_detector_states equals the full-domain path restricted to the region for every interior box; "
              "the full-domain path (sequential pad / zero / Bloch / mirror pipeline on padded arrays + slice stencil) equals an independent "
              "neighbour-indexed stencil specification with zero / wrap / Bloch-phase / parity-mirror halos (separable over axes, corners included); "
              "hence every exact record = restriction of the specification, whichever path is taken; the raw path records the slice.")
LEVEL_NOTE = ("Trusted: Coq kernel; correspondence of model/Colocate.v with the code on generated scenes (this check); Bloch phases are "
              "oracle inputs. The mirror statement needs >= 2 cells on an electric-symmetry axis (with 1 cell the code's source slab is the max halo).")
TECHNIQUE = "Coq proof (separable-halo invariant over the padding pipeline, induction over the boundary list, ring/field) + differential correspondence on placed scenes"

TOL = "(q 1 1000000000)"
COMPS = ["Ex", "Ey", "Ez", "Hx", "Hy", "Hz"]
FACES = ("min_x", "max_x", "min_y", "max_y", "min_z", "max_z")


# ----------------------------------------------------------------------------- generation
def bt_of(kinds):
    """kinds: per axis (min, max)"""
    return {f"{side}_{'xyz'[a]}": kinds[a][i] for a in range(3) for i, side in enumerate(("min", "max"))}


def rand_fields(rng, rshape, cplx):
    def arr():
        return [[[[rng.randint(-8, 8) for _ in range(rshape[2])] for _ in range(rshape[1])] for _ in range(rshape[0])] for _ in range(3)]
    return {"re": arr(), "im": arr() if cplx else None}


def boxes_for(rng, rshape, rich):
    n = rshape
    B = [("full", [[0, n[0]], [0, n[1]], [0, n[2]]])]
    if all(v >= 3 for v in n):
        lo = [rng.randint(1, v - 2) for v in n]
        hi = [rng.randint(l + 1, v - 1) for l, v in zip(lo, n)]
        B.append(("interior", [[l, h] for l, h in zip(lo, hi)]))
        if rich or rng.random() < 0.5:
            B.append(("interior_max", [[1, v - 1] for v in n]))
    corners = list(itertools.product((0, 1), repeat=3))
    rng.shuffle(corners)
    for cr in corners[: (8 if rich else 1)]:
        B.append(("corner", [[0, 1] if s == 0 else [v - 1, v] for s, v in zip(cr, n)]))
    # boxes touching exactly one face / one edge
    for _ in range(3 if rich else 2):
        a = rng.randrange(3)
        side = rng.randrange(2)
        bx = []
        for b, v in enumerate(n):
            if b == a:
                bx.append([0, rng.randint(1, max(1, v - 1))] if side == 0 else [rng.randint(min(1, v - 1), v - 1), v])
            elif v >= 3:
                l = rng.randint(1, v - 2)
                bx.append([l, rng.randint(l + 1, v - 1)])
            else:
                bx.append([0, v])
        B.append((f"face{a}{'min' if side == 0 else 'max'}", bx))
    a, b = rng.sample(range(3), 2)
    bx = [[0, v] for v in n]
    bx[a] = [0, 1]
    bx[b] = [n[b] - 1, n[b]]
    B.append(("edge", bx))
    return B


def make_case(rng, kinds, sym=(0, 0, 0), nonuni=False, cplx=False, kvec=None, rshape=None, rich=False, mode="direct", padded=None):
    rshape = rshape or [rng.randint(3, 5), rng.randint(3, 4), rng.randint(3, 5)]
    shape = [2 * v if s != 0 else v for v, s in zip(rshape, sym)]
    widths = None
    if nonuni:
        widths = []
        for v, s in zip(rshape, sym):
            w = [rng.randint(3, 7) for _ in range(v)]
            widths.append(w[::-1] + w if s != 0 else w)
    scene = {"shape": shape, "widths": widths, "T": 4, "bt": bt_of(kinds), "symmetry": list(sym) if any(sym) else None,
             "complex": cplx, "kvec": kvec}
    dets = []
    for i, (tag, bx) in enumerate(boxes_for(rng, rshape, rich)):
        full_bx = [[lo + (v if s != 0 else 0), hi + (v if s != 0 else 0)] for (lo, hi), v, s in zip(bx, rshape, sym)]
        dets.append({"name": f"d{i}_{tag}", "tag": tag, "box": full_bx, "rbox": bx, "exact": True})
    bx = dets[rng.randrange(len(dets))]
    dets.append({"name": "raw", "tag": "raw", "box": bx["box"], "rbox": bx["rbox"], "exact": False})
    bx = dets[rng.randrange(2)]
    dets.append({"name": "subset", "tag": "subset", "box": bx["box"], "rbox": bx["rbox"], "exact": True,
                 "components": rng.sample(COMPS, rng.randint(1, 4)), "interval": 2})
    return {"kind": "scene", "scene": scene, "rshape": rshape, "sym": list(sym), "t": rng.choice([0, 2]), "mode": mode,
            "padded": (bool(any(sym)) and mode == "direct") if padded is None else padded,
            "E": rand_fields(rng, rshape, cplx), "H": rand_fields(rng, rshape, cplx), "Hprev": rand_fields(rng, rshape, cplx), "dets": dets}


K1 = 2.0 ** 21   # rad/m; k*L with L = n * 2^-24 m stays well below pi


def plans(ctx):
    P = "periodic"
    q = [
        dict(kinds=[("pec", "pmc"), ("pml", "pml"), ("pmc", "pec")]),
        dict(kinds=[(P, P), ("pec", "pml"), (P, P)], nonuni=True),
        dict(kinds=[(P, "pec"), ("pml", P), (P, P)]),                                  # mixed faces: the axis wraps on both sides
        dict(kinds=[("pml", "pml"), (P, P), ("pec", "pec")], sym=(-1, 0, 0)),
        dict(kinds=[(P, P), ("pml", "pml"), (P, P)], sym=(1, -1, -1), nonuni=True),  # symmetric periodic axes: min halo zeroed (x; z-min is never read)
        dict(kinds=[("bloch", "bloch"), ("pml", "pec"), ("bloch", "bloch")], cplx=True, kvec=[K1, 0.0, 1.5 * K1]),
        dict(kinds=[("bloch", "bloch"), (P, P), ("pml", "pml")], sym=(0, -1, -1), cplx=True, kvec=[K1, 0.0, 0.0], nonuni=True),
        dict(kinds=[("pml", "pml"), (P, P), ("pec", "pmc")], mode="forward", rshape=[3, 3, 3]),
    ]
    t = q + [
        dict(kinds=[(P, P), (P, P), (P, P)], rich=True),
        dict(kinds=[("pml", "pml"), ("pml", "pml"), ("pml", "pml")], rich=True, nonuni=True),
        dict(kinds=[("pml", "pml"), ("pml", "pml"), ("pml", "pml")], sym=(-1, -1, -1), rich=True),
        dict(kinds=[("pml", "pec"), ("pml", "pml"), (P, P)], sym=(1, -1, 0)),
        dict(kinds=[(P, P), (P, P), ("pml", "pml")], sym=(-1, 1, 0)),
        dict(kinds=[(P, P), ("bloch", "bloch"), ("bloch", "bloch")], sym=(1, 0, -1), cplx=True, kvec=[0.0, K1, K1]),
        dict(kinds=[("bloch", "pec"), ("pml", "bloch"), (P, P)], cplx=True, kvec=[K1, K1, 0.0], nonuni=True),
        dict(kinds=[("pml", "pml"), ("pml", "pml"), ("pml", "pml")], sym=(-1, 0, 0), rshape=[2, 3, 3]),
        # one reduced cell on the mirror axis: the code's source slab 2:3 for on-plane components is the max halo; those
        # entries are never read by the stencil, so the records still obey the oracle (padded arrays not compared)
        dict(kinds=[("pml", "pml"), ("pml", "pml"), ("pml", "pml")], sym=(-1, 0, 0), rshape=[1, 3, 3], padded=False),
        dict(kinds=[(P, P), ("pec", "pec"), ("pml", "pml")], rshape=[1, 3, 2]),
        dict(kinds=[(P, P), ("pml", "pml"), (P, P)], sym=(-1, 0, 0), nonuni=True, mode="forward"),
        dict(kinds=[("pec", "pmc"), (P, P), ("pml", "pml")], cplx=True),
    ]
    if not ctx.quick:
        rng = ctx.rng
        for _ in range(20):
            cplx = rng.random() < 0.35
            pairs = [(P, P), ("pml", "pml"), ("pec", "pmc"), ("pmc", "pml"), (P, "pec"), ("pml", P)] + ([("bloch", "bloch"), ("bloch", "pml")] if cplx else [])
            kinds = [rng.choice(pairs) for _ in range(3)]
            sym = tuple(rng.choice([0, 0, -1, 1]) for _ in range(3))
            kv = [K1 * rng.choice([0.0, 0.5, 1.0, 1.5]) for _ in range(3)] if cplx else None
            t.append(dict(kinds=kinds, sym=sym, nonuni=rng.random() < 0.5, cplx=cplx, kvec=kv))
    return ctx.pick(q, t)


def gen_cases(ctx):
    return [make_case(ctx.rng, **p) for p in plans(ctx)]


def run_cases(ctx, cases):
    return core.run_impl_sharded(IMPL, cases, shard=min(4, len(cases)))


# ----------------------------------------------------------------------------- inputs as seen by the code
def fvals(hexes):
    return [float.fromhex(h) for h in hexes]


def inputs(case, out):
    """E, H, Hprev as numpy arrays (complex or real), exact"""
    cplx = bool(case["scene"].get("complex"))
    rs = case["rshape"]
    res = {}
    for k in ("E", "H", "Hprev"):
        if case.get("mode") == "forward":
            a = np.asarray(fvals(out["seen"][k]["re"])).reshape([3] + rs)
            if cplx:
                a = a + 1j * np.asarray(fvals(out["seen"][k]["im"])).reshape([3] + rs)
        else:
            a = np.asarray(case[k]["re"], dtype=np.float64) / 4
            if cplx:
                a = a + 1j * np.asarray(case[k]["im"], dtype=np.float64) / 4
        res[k] = a
    return res


def exactness(case, out):
    """rows can be compared exactly iff all arithmetic is dyadic"""
    return not (out.get("nonuniform") or case["scene"].get("complex") or case.get("mode") == "forward")


# ----------------------------------------------------------------------------- Coq expression
AXN = ["AX", "AY", "AZ"]


def shp(t):
    return f"({t[0]}, {t[1]}, {t[2]})%nat"


def ql(x):
    """exact rational literal of a float; hexadecimal digits for long mantissas (much faster to parse in Coq)"""
    f = core.frac(float(x))
    if f == 0:
        return "0%Qc"
    if abs(f.numerator) < 10 ** 6 and f.denominator < 10 ** 6:
        return f"(q ({f.numerator}) ({f.denominator}))"
    sign = "-" if f.numerator < 0 else ""
    return f"(q ({sign}{hex(abs(f.numerator))}) ({hex(f.denominator)}))"


def qc(x, cplx):
    if cplx:
        return f"({ql(np.real(x))}, {ql(np.imag(x))})"
    return ql(np.real(x))


def l4(a, cplx):
    return lst(a, lambda x: lst(x, lambda y: lst(y, lambda z: lst(z, lambda v: qc(v, cplx)))))


def prelude(case, out):
    cplx = bool(case["scene"].get("complex"))
    KF = "QciF" if cplx else "QcF"
    inp = inputs(case, out)
    s = ""
    for k in ("E", "H", "Hprev"):
        s += f"let {k} := get4 (K:={KF}) {l4(inp[k].tolist(), cplx)} in "
    if out["widths"] is not None:
        def wl(a):
            return f"(get1 (K:={KF}) " + lst(fvals(a), lambda v: qc(v, cplx)) + ")"
        s += f"let avg := Some (mkGrid {wl(out['widths'][0])} {wl(out['widths'][1])} {wl(out['widths'][2])}) in "
    else:
        s += f"let avg : option (Grid {KF}) := None in "
    bl = []
    for b in out["bnds"]:
        if b["needs_complex"]:
            re, im = float.fromhex(b["phase"][0]), float.fromhex(b["phase"][1])
            kind = f"(BBloch (K:=QciF) {qc(complex(re, im), True)} {qc(complex(re, -im), True)})"
        elif b["wrap"]:
            kind = "BPeriodic"
        else:
            kind = "BTerm"
        bl.append(f"(mkBnd (K:={KF}) {AXN[b['axis']]} {core.blit(b['max'])} {kind} {core.blit(b['symwall'])})")
    s += f"let bnds := {lst(bl)} in "
    sy = out["symmetry"]
    s += f"let sym := (fun a => match a with AX => ({sy[0]})%Z | AY => ({sy[1]})%Z | AZ => ({sy[2]})%Z end) in "
    s += f"let dims := {shp(out['shape'])} in "
    return s


def sel_of(d):
    return sorted(COMPS.index(c) for c in (d.get("components") or COMPS))


def det_expr(case, out, d):
    cplx = bool(case["scene"].get("complex"))
    o = out["dets"][d["name"]]
    sl = o["slice"]
    lo, n3 = [s for s, _ in sl], [e - s for s, e in sl]
    sel = sel_of(d)
    model = (f"(tab4 {len(sel)} {n3[0]} {n3[1]} {n3[2]} (record {lst(sel, lambda s: f'{s}%nat')} "
             f"(detector_fields {core.blit(d['exact'])} avg dims bnds sym {shp(lo)} {shp(n3)} E H Hprev)))")
    re = fvals(o["re"])
    if cplx:
        im = fvals(o["im"])
        sc = max([abs(v) for v in re + im] + [1e-300])
        return f"clist_close_abs {TOL} {ql(sc)} {model} {lst(re, ql)} {lst(im, ql)}"
    if exactness(case, out):
        return f"qlist_eqb {model} {lst(re, ql)}"
    sc = max([abs(v) for v in re] + [1e-300])
    return f"qlist_close_abs {TOL} {ql(sc)} {model} {lst(re, ql)}"


def padded_exprs(case, out):
    """pad_fields_with_symmetry_mirror output == model pad_mirror at every padded index (halo slabs, edges, corners)"""
    if not case.get("padded"):
        return []
    cplx = bool(case["scene"].get("complex"))
    n = out["shape"]
    res = []
    for key, isH, fld in (("E", "false", "E"), ("H", "true", "(havg Hprev H)")):
        model = f"(tab4 3 {n[0] + 2} {n[1] + 2} {n[2] + 2} (pad_mirror dims bnds sym {isH} {fld}))"
        re = fvals(out["padded"][key]["re"])
        if cplx:
            im = fvals(out["padded"][key]["im"])
            sc = max([abs(v) for v in re + im] + [1e-300])
            res.append((f"padded_{key}", f"clist_close_abs {TOL} {ql(sc)} {model} {lst(re, ql)} {lst(im, ql)}"))
        else:
            res.append((f"padded_{key}", f"qlist_eqb {model} {lst(re, ql)}"))
    return res


def coq_expr(case, out):
    if "crash" in out:
        return "false"
    parts = [det_expr(case, out, d) for d in case["dets"]] + [e for _, e in padded_exprs(case, out)]
    return prelude(case, out) + "(" + " && ".join(parts) + ")"


def show_model(case, out):
    if "crash" in out:
        return str(out)[:400]
    named = [(d["name"], det_expr(case, out, d)) for d in case["dets"]] + padded_exprs(case, out)
    res, errs = core.coq_eval_shards(PID, COQ_HEADER, [prelude(case, out) + e for _, e in named], shard_size=4, tag="_show")
    bad = [nm for (nm, _), r in zip(named, res) if r is not True]
    return "detectors whose model row differs from the implementation: " + ", ".join(bad) + (" ; " + str(errs[:1]) if errs else "")


# ----------------------------------------------------------------------------- predicate: independent numpy oracle
def halo_tables(out, isH):
    """per axis, per component: (factor, source index) for the low and the high ghost cell"""
    n, sym, bnds = out["shape"], out["symmetry"], out["bnds"]
    lo, hi = [[None] * 3 for _ in range(3)], [[None] * 3 for _ in range(3)]
    for a in range(3):
        on_axis = [b for b in bnds if b["axis"] == a]
        wraps = any(b["wrap"] for b in on_axis)
        mirror = sym[a] == -1 and any(b["symwall"] for b in on_axis)
        plo = phi = 1.0 + 0j
        for b in on_axis:
            if b["needs_complex"]:
                ph = complex(float.fromhex(b["phase"][0]), float.fromhex(b["phase"][1]))
                if b["max"]:
                    phi *= ph
                else:
                    plo *= np.conj(ph)
        for c in range(3):
            if mirror:
                on_plane_odd = (c == a) if isH else (c != a)     # normal H / tangential E vanish on an electric plane
                lo[a][c] = (-1.0, 1) if on_plane_odd else (1.0, 0)
            elif wraps and sym[a] == 0:
                lo[a][c] = (plo, n[a] - 1)
            else:
                lo[a][c] = (0.0, 0)
            hi[a][c] = (phi, 0) if wraps else (0.0, 0)
    return lo, hi


def extend(F, out, isH):
    n = out["shape"]
    lo, hi = halo_tables(out, isH)
    cplx = np.iscomplexobj(F) or any(b["needs_complex"] for b in out["bnds"])
    X = np.zeros((3, n[0] + 2, n[1] + 2, n[2] + 2), dtype=np.complex128 if cplx else np.float64)
    for c in range(3):
        idx, fac = [], []
        for a in range(3):
            idx.append(np.array([min(lo[a][c][1], n[a] - 1)] + list(range(n[a])) + [hi[a][c][1]]))
            fa = np.array([lo[a][c][0]] + [1.0] * n[a] + [hi[a][c][0]])
            fac.append(fa if cplx else fa.real)
        X[c] = (fac[0][:, None, None] * fac[1][None, :, None] * fac[2][None, None, :]) * F[c][np.ix_(idx[0], idx[1], idx[2])]
    return X


def oracle(case, out):
    """co-located (E, H) on the whole (reduced) domain, written with explicit index loops over neighbours"""
    inp = inputs(case, out)
    n = out["shape"]
    Ee = extend(inp["E"], out, False)
    He = extend((inp["Hprev"] + inp["H"]) / 2, out, True)
    W = None if out["widths"] is None else [np.asarray(fvals(w)) for w in out["widths"]]

    def back(ax, cur, prev):
        if W is None:
            return (cur + prev) / 2
        w = W[ax]
        wp = np.concatenate([w[:1], w[:-1]])
        s = [1, 1, 1]
        s[ax] = len(w)
        dc, dp = (w / 2).reshape(s), (wp / 2).reshape(s)
        return (cur * dp + prev * dc) / (dc + dp)

    def g(A, c, dx=0, dy=0, dz=0):
        return A[c, 1 + dx:1 + dx + n[0], 1 + dy:1 + dy + n[1], 1 + dz:1 + dz + n[2]]
    Ex = (back(0, g(Ee, 0), g(Ee, 0, dx=-1)) + back(0, g(Ee, 0, dz=1), g(Ee, 0, dx=-1, dz=1))) / 2
    Ey = (back(1, g(Ee, 1), g(Ee, 1, dy=-1)) + back(1, g(Ee, 1, dz=1), g(Ee, 1, dy=-1, dz=1))) / 2
    Ez = g(Ee, 2)
    Hx = back(1, g(He, 0), g(He, 0, dy=-1))
    Hy = back(0, g(He, 1), g(He, 1, dx=-1))

    def hz(dz):
        return back(1, back(0, g(He, 2, dz=dz), g(He, 2, dx=-1, dz=dz)), back(0, g(He, 2, dy=-1, dz=dz), g(He, 2, dx=-1, dy=-1, dz=dz)))
    Hz = (hz(0) + hz(1)) / 2
    return np.stack([Ex, Ey, Ez, Hx, Hy, Hz]), np.concatenate([inp["E"], inp["H"]])


def row_of(o, cplx):
    a = np.asarray(fvals(o["re"]))
    if cplx:
        a = a + 1j * np.asarray(fvals(o["im"]))
    return a.reshape(o["oshape"])


def predicate(case, out):
    if "crash" in out:
        return ("driver-crash", out["crash"])
    cplx = bool(case["scene"].get("complex"))
    co, raw = oracle(case, out)
    tag = "-".join(sorted({("bloch" if b["needs_complex"] else "wrap" if b["wrap"] else "zero") for b in out["bnds"]}
                          | ({"mirror"} if -1 in out["symmetry"] else set()) | ({"symzero"} if 1 in out["symmetry"] else set())))
    if case.get("padded"):
        inp = inputs(case, out)
        for key, isH, F in (("E", False, inp["E"]), ("H", True, (inp["Hprev"] + inp["H"]) / 2)):
            got = np.asarray(fvals(out["padded"][key]["re"]))
            if cplx:
                got = got + 1j * np.asarray(fvals(out["padded"][key]["im"]))
            got = got.reshape(out["padded_shape"])
            exp = extend(F, out, isH)
            if got.shape != exp.shape or float(np.abs(got - exp).max(initial=0)) > 1e-9 * max(float(np.abs(exp).max(initial=0)), 1e-300):
                w = np.unravel_index(int(np.argmax(np.abs(got - exp))), got.shape) if got.shape == exp.shape else None
                return (f"padded-{key}", f"pad_fields_with_symmetry_mirror({key}) on {out['shape']} ({tag}): padded index {None if w is None else tuple(int(v) for v in w)} "
                        f"(component, x, y, z): got {got[w] if w else got.shape} expected {exp[w] if w else exp.shape}")
    for d in case["dets"]:
        o = out["dets"][d["name"]]
        if o["slice"] != d["rbox"]:
            return ("gen-slice", f"{d['name']}: placed slice {o['slice']} != generated {d['rbox']}")
        if not o["on_now"]:
            return ("gen-off", f"{d['name']} generated off at the probed step")
        sl = (slice(None),) + tuple(slice(s, e) for s, e in o["slice"])
        exp = (co if d["exact"] else raw)[sl][sel_of(d)]
        got = row_of(o, cplx)
        if got.shape != exp.shape:
            return (f"shape-{d['tag']}", f"{d['name']}: recorded shape {got.shape} != {exp.shape}")
        sc = max(float(np.abs(exp).max(initial=0)), 1e-300)
        e = float(np.abs(got - exp).max(initial=0)) / sc
        if e > 1e-9:
            w = np.unravel_index(int(np.argmax(np.abs(got - exp))), got.shape)
            kind = "raw" if not d["exact"] else ("interior" if is_interior(o["slice"], out["shape"]) else "edge")
            return (f"colocation-{kind}", f"{d['name']} box {o['slice']} of {out['shape']} ({tag}, {'rectilinear' if out['nonuniform'] else 'uniform'}): "
                    f"component row {w[0]} of {[COMPS[s] for s in sel_of(d)]} cell {tuple(int(v) for v in w[1:])}: recorded {got[w]} expected {exp[w]}")
        if not o["others_zero"]:
            return ("other-rows-written", f"{d['name']}: rows other than the active step were written")
    return None


def is_interior(sl, shape):
    return all(s >= 1 and e <= n - 1 for (s, e), n in zip(sl, shape))


def nontrivial(case, out):
    if "crash" in out:
        return False
    ex = [out["dets"][d["name"]]["slice"] for d in case["dets"] if d["exact"]]
    return any(is_interior(s, out["shape"]) for s in ex) and any(not is_interior(s, out["shape"]) for s in ex)


def classify(case, out):
    sc = case["scene"]
    return ("nonuniform" if sc["widths"] else "uniform") + ("-complex" if sc.get("complex") else "") + \
        ("-sym" + "".join("0-+"[s] if s >= 0 else "e" for s in case["sym"]) if any(case["sym"]) else "") + "-" + case.get("mode", "direct")


def search(ctx, broken):
    """directed search: fresh seeds of every quick plan; return failing predicate inputs"""
    found, tried = [], 0
    for p in plans(ctx)[:8]:
        c = make_case(ctx.rng, **p)
        o = run_cases(ctx, [c])[0]
        tried += 1
        r = predicate(c, o)
        if r:
            found.append((c, o, r[0], r[1]))
            break
    return found, tried
