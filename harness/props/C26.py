"""C26 — resolved object placement satisfies every constraint."""
import json
import random

from lib import core
from lib import place_util as P

PID = "C26"
PROPS_FILE = "props/C26.v"
IMPL = "C26_impl.py"
COQ_HEADER = P.HEADER
SHARD = 30
RULE = ("constraint systems over 2..8 objects (uniform grid, 6..14 cells per axis, sub-cell unit D in {1,2,4}) built around a "
        "random ground-truth layout from all five constraint classes + static grid/real shapes, with redundant (consistent) "
        "extra constraints, random grouping into multi-axis constraints, shuffled constraint and object order; one third "
        "perturbed by >= one cell in one number (malformed stream); small 2-3 object systems over-represented; the defect "
        "witnesses first.  model `resolve false` == resolve_object_constraints (all slices + set of objects with errors); "
        "predicate re-evaluates every constraint relation on the implementation's slices.  non-trivial = placement succeeded "
        "with >= 1 constraint")
EXHAUSTIVE = {"quick": False, "thorough": False}
ASSUMPTIONS = ["uniform grid; every relative position/proportion is a multiple of 1/D and every margin/offset a multiple of "
               "spacing/(2D), spacing = 2^-10 so that the implementation's float arithmetic is exact (ties in np.argmin are real ties)",
               "objects have no partial_real_position; error message texts are not compared, only which objects carry an error",
               "the theorem is about successful *converged* runs (max_iter not exhausted; default 1000, never reached in tests)",
               "the model is the solver with fixes/C26.patch applied; the unchanged solver is [resolve true] and is refuted"]
TRUSTED = ["correspondence harness (exact integer comparison of slices and error sets)",
           "place_util.check_constraints (independent re-evaluation of the constraint relations in Python)"]

CORPUS = core.VERIF / "harness" / "corpus" / "C26.json"


def gen_cases(ctx):
    cases = [{"sys": P.witness_three((1, 0, 2)), "tag": "witness-three-C2C1C3"},
             {"sys": P.witness_three((0, 2, 1)), "tag": "witness-three-C1C3C2"},
             {"sys": P.witness_single(), "tag": "witness-single"}]
    if CORPUS.exists():
        cases += [{"sys": s, "tag": "corpus"} for s in json.loads(CORPUS.read_text())]
    n = ctx.pick(100, 1500)
    for i in range(n):
        small = i % 2 == 0
        s = P.gen_system(ctx.rng, nobj=ctx.rng.randint(2, 3) if small else None, valid=(i % 3 != 0),
                         redundancy=0.8 if small else 0.5)
        cases.append({"sys": s, "tag": ("small" if small else "large") + ("" if i % 3 else "-perturbed")})
    return cases


def run_cases(ctx, cases):
    return core.run_impl_sharded(IMPL, cases, shard=ctx.pick(6, 8), timeout=3000)


def coq_expr(case, out):
    s = case["sys"]
    return P.agree_expr(s, s["order"], s["cons"], out)


def _key(case):
    return case.get("tag", "sys") + "-" + core.case_hash(case["sys"])[:8]


def predicate(case, out):
    if "raised" in out:
        return (_key(case), f"resolve_object_constraints raised {out['raised']}")
    if out["errs"]:
        return None  # placement failed: nothing is claimed
    bad = P.check_constraints(case["sys"], case["sys"]["cons"], out["slices"])
    if bad:
        return (_key(case), "placement succeeded but " + "; ".join(bad[:3]))
    return None


def nontrivial(case, out):
    return "raised" not in out and not out["errs"] and len(case["sys"]["cons"]) >= 1


def classify(case, out):
    r = "raised" if "raised" in out else ("rejected" if out["errs"] else "accepted")
    return case.get("tag", "sys").split("-")[0] + ":" + r


_SHOWN = [0]


def show_model(case, out):
    _SHOWN[0] += 1
    if _SHOWN[0] > 5:   # check.py keeps only the first five mismatches
        return None
    s = case["sys"]
    e = P.env_lit(s)
    return core.coq_eval_text(PID, COQ_HEADER, f"let '(st, er, cv) := resolve false {e} {P.cons_lit(s['cons'])} 1000%nat in (slices_of {e} st, er, cv)")


def search(ctx, broken):
    """Directed search: small over-determined systems with one perturbed number and shuffled order."""
    rng = random.Random(ctx.seed + 77)
    found, tried = [], 0
    for rnd in range(ctx.pick(2, 12)):
        cases = [{"sys": P.gen_system(rng, nobj=rng.randint(2, 4), valid=False, redundancy=0.9), "tag": "search"} for _ in range(40)]
        outs = core.run_impl_sharded(IMPL, cases, shard=6, timeout=3000)
        tried += len(cases)
        for c, o in zip(cases, outs):
            r = predicate(c, o)
            if r:
                found.append((c, o, r[0], r[1]))
        if found:
            break
    return found[:3], tried


LEVEL_TEXT = ("Theorem (all scenes, constraint lists, max_iter): when the repaired solver converges with no error, every grid/real-"
              "coordinate, position, size and extension constraint holds for the final slices (up to first-nearest snapping, whose "
              "argmin specification, uniqueness and exactness on grid-aligned inputs are proved), all objects are resolved with "
              "shape = upper-lower, and every object is a non-empty interval inside the volume.  `_refuted`: the solver as written "
              "accepts a violated position constraint and a wrong declared size (early exit).  Tie: model == "
              "resolve_object_constraints on random systems (slices and error sets).")
LEVEL_NOTE = ("Genuine defect on the unchanged tree (fixes/C26.patch removes the early exit).  Not proved: 'unconstrained axes span the "
              "volume' and 'declared static shape is kept' as Coq theorems (both checked by the predicate on every accepted case); "
              "max_iter sufficiency (the theorem assumes convergence).  Non-uniform grids are outside the model.")
TECHNIQUE = "Coq proof (quiescent-pass argument over the faithful loop model, argmin induction) + differential runs + independent re-evaluation"
