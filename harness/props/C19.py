"""C19 — discretization picks the nearest allowed material (ClosestIndex, straight-through estimator)."""
from fractions import Fraction

from lib import core
from lib.core import qlit, zlit, lst, frac

PID = "C19"
PROPS_FILE = "props/C19.v"
IMPL = "C19_impl.py"
COQ_HEADER = ("From Coq Require Import ZArith QArith Qcanon Arith.\n"
              "From FV Require Import base.Scalar base.PyNum base.Util model.DeviceIndex.")
SHARD = 60
RULE = ("ClosestIndex.__call__ on random material sets (1-5 materials, isotropic: dyadic and non-dyadic permittivities, dict order shuffled; "
        "diagonal) and arrays of rank 0-4 incl. singleton/empty axes, last axis ==/!= number of materials; values on a dyadic grid with exact "
        "ties (mid-points) and without near-ties; both modes; jvp with a random integer tangent. Model (Qc, exact) must reproduce shape, every "
        "value and the tangent. non-trivial = >=2 materials and >=2 voxels")
EXHAUSTIVE = {"quick": False, "thorough": False}
ASSUMPTIONS = ["float64 |x - a_i| ordering equals the exact ordering: generated values have either exact ties (dyadic) or distance gaps > 1e-6 relative",
               "allowed inverse permittivities are the doubles 1.0/eps (model input), materials ordered by ascending permittivity (checked against compute_allowed_permittivities)",
               "jnp.round is round-half-to-even on exactly representable inputs",
               "gradient pass-through is modelled on dual numbers (forward mode); the check observes jax.jvp"]
TRUSTED = ["correspondence harness (exact Qc comparison of shape, values, tangents)", "numpy broadcasting semantics as modelled by bshape/bidx (validated on the diagonal-material path, which broadcasts (..,nz,1) against (n,3), and on error cases)"]

DY = [1.0, 2.0, 4.0, 8.0, 16.0, 0.5]
ND = [1.5, 2.25, 3.7, 11.9, 2.0, 6.0, 1.0, 12.25]


def ordered(mats):
    """harness-side ordering: ascending first permittivity component, stable"""
    return sorted(mats, key=lambda e: (e[0] if isinstance(e, list) else e))


def is_iso(mats):
    return all((not isinstance(e, list)) or len(set(e)) == 1 for e in mats)


def allowed_inv(mats):
    if is_iso(mats):
        return [1.0 / (e[0] if isinstance(e, list) else e) for e in ordered(mats)]
    return [[1.0 / v for v in (e if isinstance(e, list) else [e, e, e])] for e in ordered(mats)]


def shapes(rng, n, quick):
    last = rng.choice([n, n, 1, 1, n + 1, 2, 3, 5])
    r = rng.random()
    if r < 0.62:
        s = [rng.choice([1, 2, 3]), rng.choice([1, 2, 3]), last]
    elif r < 0.72:
        s = [last]
    elif r < 0.82:
        s = [rng.choice([1, 2, 4]), last]
    elif r < 0.9:
        s = [rng.choice([1, 2]), rng.choice([1, 2]), rng.choice([1, 2]), last]
    elif r < 0.94:
        s = []
    else:
        s = [rng.choice([1, 2]), 0, last]
    return s


def size(s):
    p = 1
    for d in s:
        p *= d
    return p


def near_tie(x, al):
    d = sorted(abs(Fraction(x) - Fraction(a)) for a in al)
    if len(d) < 2:
        return False
    return d[0] != d[1] and (d[1] - d[0]) <= Fraction(1, 10**6) * max(d[1], Fraction(1, 10**6))


def gen_vals(rng, s, al, dyadic):
    vals = []
    for _ in range(size(s)):
        for _try in range(50):
            r = rng.random()
            if dyadic and r < 0.35 and len(al) >= 2:   # exact mid-point of two allowed values (tie)
                a, b = rng.sample(al, 2)
                x = (a + b) / 2
            elif r < 0.5:
                x = rng.choice(al) + rng.choice([-1, 0, 1]) / 1024.0
            else:
                x = rng.randint(-16, 80) / 64.0
            if not near_tie(x, al):
                break
        vals.append(x)
    return vals


def mk(rng, mode, mats, s, vals):
    return {"mode": mode, "mats": mats, "shape": s, "vals": [float(v).hex() for v in vals],
            "tan": [rng.randint(-3, 3) for _ in vals]}


def gen_cases(ctx):
    rng = ctx.rng
    cases = []
    # fixed corpus: the design-phase triggers (depth == n, depth == 1, other depth), a tie, unordered dict
    m3 = [4.0, 1.0, 2.0]
    for s in ([2, 2, 3], [2, 3, 1], [2, 2, 2], [3, 3, 3]):
        vals = [((i * 7) % 19) / 16.0 for i in range(size(s))]
        cases.append(mk(rng, "inv", m3, s, vals))
    cases.append(mk(rng, "inv", m3, [1, 4], [0.75, 0.375, 0.25, 2.0]))
    n_iso = ctx.pick(130, 1500)
    for i in range(n_iso):
        n = rng.choice([2, 2, 3, 3, 4, 5, 1])
        dy = rng.random() < 0.6
        mats = rng.sample(DY if dy else ND, n)
        s = shapes(rng, n, ctx.quick)
        al = allowed_inv(mats)
        cases.append(mk(rng, "inv", mats, s, gen_vals(rng, s, al, dy)))
    for i in range(ctx.pick(30, 300)):      # diagonal materials, inverse mode: quirk path, modelled faithfully
        n = rng.choice([2, 3, 4])
        mats = [[rng.choice(DY), rng.choice(DY), rng.choice(DY)] for _ in range(n)]
        if len({m[0] for m in mats}) < n:
            continue
        s = shapes(rng, n, ctx.quick)
        if not s:
            s = [n]
        vals = [rng.randint(-8, 40) / 32.0 for _ in range(size(s))]
        cases.append(mk(rng, "inv", mats, s, vals))
    for i in range(ctx.pick(80, 900)):     # integer mode
        n = rng.choice([1, 2, 2, 3, 4, 5])
        if rng.random() < 0.5:
            mats = rng.sample(ND, n)
        else:
            mats = [[rng.choice(ND), rng.choice(ND), rng.choice(ND)] for _ in range(n)]
        s = shapes(rng, n, ctx.quick)
        vals = [rng.choice([rng.randint(-16, 8 * n + 8) / 8.0, rng.randint(-2, n + 1) + 0.5, rng.randint(-300, 300) / 7.0])
                for _ in range(size(s))]
        cases.append(mk(rng, "int", mats, s, vals))
    return cases


def run_cases(ctx, cases):
    return core.run_impl_sharded(IMPL, cases, shard=ctx.pick(4, 6))


def kind(case):
    return ("int" if case["mode"] == "int" else "inv") + ("-iso" if is_iso(case["mats"]) else "-diag")


def natl(s):
    return lst([f"{int(v)}%nat" for v in s])


def coq_expr(case, out):
    k = kind(case)
    s = natl(case["shape"])
    d = lst(case["vals"], qlit)
    arr = f"(of_flat {s} {d} (q 0 1))"
    if k == "inv-iso":
        al = lst([qlit(a) for a in allowed_inv(case["mats"])])
        call = f"call_inv_fixed QcOF {al} {arr}"
    elif k == "inv-diag":
        flat = lst([qlit(v) for a in allowed_inv(case["mats"]) for v in a])
        call = f"call_inv QcOF (allowed_rows QcOF 3%nat {flat}) {arr}"
    else:
        call = f"call_int {zlit(len(case['mats']))} {arr}"
    if "error" in out:
        return f"match {call} with None => true | Some _ => false end"
    tan_model = (f"(map (fun xt => snd (ste_dual QcOF xt (q 0 1, q 0 1))) (combine {d} {lst(case['tan'], qlit)}))")
    same_shape = list(out["shape"]) == list(case["shape"])
    tan_check = f"qlist_eqb {tan_model} {lst(out['tan'], qlit)}" if same_shape else "true"
    return (f"match {call} with Some r => (list_eqb Nat.eqb (shp r) {natl(out['shape'])} && qlist_eqb (to_list r) {lst(out['vals'], qlit)} "
            f"&& {tan_check})%bool | None => false end")


_SHOWN = [0]


def show_model(case, out):
    _SHOWN[0] += 1
    if _SHOWN[0] > 3:        # check.py asks for every mismatching case; evaluate the first few only
        return None
    k = kind(case)
    s = natl(case["shape"])
    arr = f"(of_flat {s} {lst(case['vals'], qlit)} (q 0 1))"
    if k == "inv-iso":
        call = f"call_inv_fixed QcOF {lst([qlit(a) for a in allowed_inv(case['mats'])])} {arr}"
    elif k == "inv-diag":
        call = f"call_inv QcOF (allowed_rows QcOF 3%nat {lst([qlit(v) for a in allowed_inv(case['mats']) for v in a])}) {arr}"
    else:
        call = f"call_int {zlit(len(case['mats']))} {arr}"
    return core.coq_eval_text(PID, COQ_HEADER, f"option_map (fun r => (shp r, map (fun v => (Qnum (this v), Qden (this v))) (to_list r))) ({call})")[-1200:]


def rel(case):
    s, n = case["shape"], len(case["mats"])
    return "scalar" if not s else ("last==n" if s[-1] == n else "last==1" if s[-1] == 1 else "last-other")


def key_of(case):
    return kind(case)


def predicate(case, out):
    """The property on the implementation output, with exact rationals, independent of the Coq model."""
    k = kind(case)
    key = key_of(case)
    al_h = allowed_inv(case["mats"])
    flat_h = [v for a in al_h for v in (a if isinstance(a, list) else [a])]
    if [float.fromhex(v) for v in out["allowed_inv"]] != flat_h:
        return ("order-" + key, f"allowed inverse permittivities {out['allowed_inv']} are not those of the materials in ascending order {flat_h}")
    if k == "inv-diag":
        return None          # the statement defines the inverse-permittivity mode for isotropic materials only
    if "error" in out:
        return ("error-" + key, f"ClosestIndex raised {out['error']} on shape {case['shape']} with {len(case['mats'])} materials")
    if list(out["shape"]) != list(case["shape"]):
        return ("shape-" + key, f"output shape {out['shape']} != input shape {case['shape']}")
    xs = [frac(float.fromhex(v)) for v in case["vals"]]
    ys = [frac(float.fromhex(v)) for v in out["vals"]]
    n = len(case["mats"])
    for i, (x, y) in enumerate(zip(xs, ys)):
        if k == "inv-iso":
            al = [frac(a) for a in al_h]
            dist = [abs(x - a) for a in al]
            exp = dist.index(min(dist))
            # any minimiser satisfies the statement; the lowest-index rule on exact ties is checked by the model comparison
            if y.denominator != 1 or not (0 <= y < n) or dist[int(y)] != min(dist):
                return ("nearest-" + key, f"voxel {i}: value {float(x)} -> index {float(y)}, nearest allowed inverse permittivity {[float(a) for a in al]} is index {exp}")
        else:
            if y.denominator != 1 or not (0 <= y <= n - 1) or any(abs(x - y) > abs(x - j) for j in range(n)):
                return ("nearest-" + key, f"voxel {i}: value {float(x)} -> {float(y)} is not a nearest integer of [0,{n - 1}]")
    if [frac(float.fromhex(v)) for v in out["tan"]] != [Fraction(t) for t in case["tan"]]:
        return ("gradient-" + key, f"tangent {out['tan'][:6]} != input tangent {case['tan'][:6]} (straight-through estimator must pass gradients unchanged)")
    return None


def nontrivial(case, out):
    return len(case["mats"]) >= 2 and size(case["shape"]) >= 2


def classify(case, out):
    return f"{kind(case)}/{rel(case)}" + ("/error" if "error" in out else "")


def search(ctx, broken):
    """directed search for an input violating the statement: more random cases, larger arrays"""
    import random
    found, tried = [], 0
    for rnd in range(3):
        sub = core.Ctx(PID, "quick", ctx.seed + 17 + rnd)
        cases = gen_cases(sub)
        outs = run_cases(sub, cases)
        tried += len(cases)
        for c, o in zip(cases, outs):
            r = predicate(c, o)
            if r:
                found.append((c, o, r[0], r[1]))
        if found:
            break
    return found[:3], tried


LEVEL_TEXT = ("Theorems (any ordered field, any shape/rank, any non-empty allowed list): on the repaired source the numpy-broadcast model of "
              "ClosestIndex.__call__ keeps the shape and every voxel is the lowest index minimising |x - allowed_i|; integer mode = "
              "clip(round-half-even) and is a nearest integer of [0,n-1]; straight-through estimator returns the discrete value and passes the "
              "tangent. The unchanged source is refuted (wrong values / changed shape / crash). Tie: exact comparison of shape, values and jvp "
              "tangents on random material sets and shapes.")
LEVEL_NOTE = ("Genuine defect on the unchanged tree (fixes/C19.patch). Inverse-permittivity mode is specified for isotropic materials only; the "
              "diagonal-material path is modelled faithfully but no property is claimed for it. Theorems are over exact arithmetic.")
TECHNIQUE = "Coq proof (induction over shapes/lists, ordered-field reasoning, nia for rounding) + differential runs incl. jax.jvp"
