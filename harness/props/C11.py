"""C11 — complex-valued fields reproduce real-valued runs."""
from lib import core, yee_coq as Y
from props import C01, C03, C10

PID = "C11"
PROPS_FILE = "props/C11.v"
COQ_HEADER = Y.HEADER
SHARD = 1
RULE = ("(a) placed scenes with PML/periodic/PEC/PMC boundaries, all four source kinds and field / phasor / energy / Poynting detectors run with "
        "use_complex_fields=True and with real storage: real parts and detector outputs equal, imaginary parts zero (1e-12 relative); "
        "(b) model tie: hand-built complex containers (use_complex_fields, zero Bloch vector) stepped by forward() vs the Coq model, bit-exact")
ASSUMPTIONS = ["real storage in the implementation corresponds to imaginary part 0 in the pair model"]
TRUSTED = ["correspondence harness"]
LEVEL_TEXT = ("Theorem (every scene of the pair model incl. any list of CPML layers, any number of steps): with ghost factors of zero imaginary part and real "
              "data, psi accumulators and source injections, imaginary parts stay exactly zero, so the real parts evolve by the same definitions (= the real run). "
              "Detector outputs are decided by the implementation predicate; model tied by exact correspondence on complex containers. The fully anisotropic tiers (model/YeeFull.v; lossless and conductive) have the same theorem for PML-free scenes (C11_full_tensor_complex_stays_real, C11_lossy_tensor_complex_stays_real; the conductive tier is tied by per-step correspondence on hand-built complex containers incl. stretched grids).")
LEVEL_NOTE = "Detector formulas (|.|^2, Re(E x conj H)) are compared on the implementation, not proved."
TECHNIQUE = "Coq proof (imaginary parts vanish through every ghost read, the CPML loop and the updates) + differential complex-vs-real runs"


def gen_cases(ctx):
    cases = []
    for i in range(ctx.pick(2, 8)):
        c = C10.lin_case(ctx.rng, ctx.quick, i)
        spec = c["spec"]
        spec["detectors"].append({"kind": "closed_poynting", "box": [[2, 5], [2, 5], [3, 6]], "name": "cs"})
        spec["init"] = None
        if i % 3 == 1:      # dipole-only scene: a fully anisotropic block under the energy / field detectors (energy density with off-diagonal terms)
            spec["blocks"] = [{"box": [[1, 6], [1, 6], [2, 7]], "eps": [2.0, 0.3, 0.1, 0.3, 2.5, 0.2, 0.1, 0.2, 3.0], "name": "aniso"}]
            spec["mats"] = None
        cases.append({"kind": "cplx", "spec": spec})
    # a mode source on a conductive (lossy) slab waveguide: the solved mode profile is complex, so the TFSF injection combines an
    # in-phase and a quadrature carrier - the one place where forced complex storage could pick up an imaginary part
    for i in range(ctx.pick(1, 2)):
        sig = [1.0e4, 3.0e4][i % 2]
        spec = {"shape": [24, 3, 26], "spacing": 5e-8, "steps": ctx.pick(60, 120), "wavelength": 1.55e-6,
                "bt": {"min_x": "pml", "max_x": "pml", "min_y": "periodic", "max_y": "periodic", "min_z": "pml", "max_z": "pml"}, "thickness": 6,
                "vol_material": {"eps": 2.25},
                "blocks": [{"box": [[0, 24], [0, 3], [11, 15]], "eps": 12.25, "sigma_e": sig, "name": "core"}],
                "sources": [{"kind": "mode", "axis": 0, "pos": 8, "dir": "+-"[i % 2], "mode_index": 0, "filter_pol": "te"}],
                "detectors": [{"kind": "field", "box": [[14, 15], [0, 3], [6, 20]], "name": "fd"},
                              {"kind": "energy", "box": [[14, 15], [0, 3], [6, 20]], "name": "en", "opts": {"as_slices": False}},
                              {"kind": "poynting", "box": [[14, 15], [0, 3], [6, 20]], "name": "pf", "opts": {"direction": "+"}},
                              {"kind": "phasor", "box": [[14, 15], [0, 3], [6, 20]], "name": "ph"}],
                "init": None}
        cases.append({"kind": "cplx", "spec": spec, "mode": True})
    for i in range(ctx.pick(3, 10)):
        c = C01.rand_case(ctx.rng, True, 4 * i)      # dyadic flavour
        c.pop("kvec", None)
        c["bt"] = {k: ("periodic" if v == "bloch" else v) for k, v in c["bt"].items()}
        c.update(kind="hand", complex=True, steps=2)
        cases.append(c)
    # conductive fully anisotropic tiers (3x3 update matrices A = M1^-1 M2, B = c M1^-1 T; model/YeeFull.v forward_lossy), forced complex storage
    for i in range(ctx.pick(2, 8)):
        c = C01.rand_case(ctx.rng, True, 4 * i + (1 if i % 2 else 0))      # uniform and stretched grids
        for _ in range(40):      # small boxes only: the 3x3 solves leave the dyadic regime and exact rationals grow quickly
            if c["shape"][0] * c["shape"][1] * c["shape"][2] <= 8:
                break
            c = C01.rand_case(ctx.rng, True, 4 * i + (1 if i % 2 else 0))
        c.pop("kvec", None)
        c["bt"] = {k: ("periodic" if v == "bloch" else v) for k, v in c["bt"].items()}
        c.update(kind="hand", complex=True, steps=2, full_eps=True, full_mu=bool(i % 3 != 1), sigma="EH", full_sigma=bool(i % 2 == 0), pow2=True, lossy9=True)
        cases.append(c)
    return cases


def run_cases(ctx, cases):
    a = [c for c in cases if c["kind"] == "cplx"]
    b = [c for c in cases if c["kind"] == "hand"]
    oa = core.run_impl_sharded("C10_impl.py", a, shard=min(len(a), 6), timeout=2400)
    ob = core.run_impl_sharded("yee_impl.py", b, jobs=4)
    ia, ib = iter(oa), iter(ob)
    return [next(ia) if c["kind"] == "cplx" else next(ib) for c in cases]


def coq_expr(case, out):
    if case["kind"] != "hand":
        return None
    if "error" in out:
        return "false"
    if case.get("lossy9"):
        st = out["states"]
        return Y.lossy_steps_expr(case["shape"], Y.scene_term(case, out), out, list(zip(st, st[1:])), scale=max(Y.maxabs(out), 1.0))
    return C01.coq_expr(case, out)


def predicate(case, out):
    if "error" in out:
        return ("driver-error", out["error"] + out.get("trace", "")[-300:])
    if case["kind"] == "hand":
        if not out.get("cplx"):
            return ("complex-storage-not-used", "use_complex_fields=True did not produce complex arrays")
        return None
    if not out["E"]["cplx"]:
        return ("complex-storage-not-used", "use_complex_fields=True did not produce complex arrays")
    for k, v in out.items():
        if v["err"] > 1e-12 or v["imag"] > 1e-12:
            return (f"complex-differs:{k}", f"{k}: complex run differs from the real run (err {v['err']:.3e}, imaginary part {v['imag']:.3e})")
    return None


def nontrivial(case, out):
    return "error" not in out and (case["kind"] == "hand" or out["E"]["scale"] > 0)


def classify(case, out):
    return case["kind"]
