"""C08 — the solver is equivariant under cyclic permutation of the axes."""
import copy
import numpy as np
from lib import core, yee_coq as Y

PID = "C08"
PROPS_FILE = "props/C08.v"
IMPL = "C08_impl.py"
COQ_HEADER = Y.HEADER
SHARD = 1
RULE = ("random placed scenes (volume shape, per-face boundary types incl. PML with thickness, material blocks with iso / diagonal / full tensors and "
        "conductivity, plane / Gaussian / dipole / magnetic-dipole sources with polarisations, raw field / phasor / energy / Poynting detectors) "
        "are run through run_fdtd in the three cyclic orientations; fields and raw detector records must be permutations of each other (1e-12 relative); "
        "model tie: per-step correspondence of the Coq model on each orientation of a PML-free scene")
ASSUMPTIONS = ["equivariance of absorbing layers, full tensors and detectors is measured on the implementation (predicate)"]
TRUSTED = ["correspondence harness"]
LEVEL_TEXT = ("Theorem (every scene of the model incl. any list of CPML layers with a valid axis, any number of steps): forward commutes with the cyclic "
              "relabelling of the axes, cell by cell, for E, H and the psi accumulators (the model keeps the source's per-axis code paths: the a == 0/1/2 "
              "branches of the CPML loop and the per-axis difference operators). The fully anisotropic tiers of model/YeeFull.v (9-component inverse "
              "permittivity / permeability, width-weighted co-location averages; lossless, and conductive with the per-cell 3x3 update matrices A = M1^-1 M2, "
              "B = c M1^-1 T by the adjugate formula) have the same theorem for layer-free scenes (C08_forward_full_tensor_perm, C08_forward_lossy_tensor_perm: "
              "the matrices of the relabelled tensors are the relabelled matrices). Source set-up and detector records: implementation predicate on all three orientations.")
LEVEL_NOTE = "Source set-up (incident profiles) and detectors are outside the theorems; they are exercised by the orientation triples through run_fdtd (which also run full tensors under CPML layers, outside the full-tensor theorems)."
TECHNIQUE = "Coq proof (relabelling commutes with ghost reads, CPML loop and updates) + differential runs in three orientations"
AX = "xyz"


def perm_vec(v):
    return [v[2], v[0], v[1]]


def perm_spec(spec):
    s = copy.deepcopy(spec)
    s["shape"] = perm_vec(spec["shape"])
    s["bt"] = {f"{side}_{AX[(a + 1) % 3]}": spec["bt"][f"{side}_{AX[a]}"] for a in range(3) for side in ("min", "max")}
    if isinstance(spec.get("thickness"), dict):
        s["thickness"] = {f"{side}_{AX[(a + 1) % 3]}": spec["thickness"][f"{side}_{AX[a]}"] for a in range(3) for side in ("min", "max")}
    for src in s.get("sources", []):
        if src["kind"] in ("plane", "gauss"):
            src["axis"] = (src["axis"] + 1) % 3
            src["pol"] = perm_vec(src["pol"])
        else:
            src["cell"] = perm_vec(src["cell"])
            src["pol"] = (src["pol"] + 1) % 3
    for d in s.get("detectors", []):
        d["box"] = perm_vec(d["box"])
    for b in s.get("blocks", []):
        b["box"] = perm_vec(b["box"])
        for k in ("eps", "mu", "sigma_e", "sigma_m"):
            v = b.get(k)
            if isinstance(v, list) and len(v) == 3:
                b[k] = perm_vec(v)
            elif isinstance(v, list) and len(v) == 9:
                m = [[v[3 * r + c] for c in range(3)] for r in range(3)]
                b[k] = [m[(r - 1) % 3][(c - 1) % 3] for r in range(3) for c in range(3)]
    return s


def perm_arr(a, comp_axis=None):
    """what the array of the original scene must look like in the permuted scene"""
    a = np.asarray(a)
    if comp_axis is None:
        return a
    sp = [ax for ax in range(a.ndim) if ax > comp_axis][-3:]
    lead = list(range(a.ndim - 3))
    b = a.transpose(lead + [sp[2], sp[0], sp[1]])
    idx = [slice(None)] * b.ndim
    idx[comp_axis] = [2, 0, 1] if b.shape[comp_axis] == 3 else [2, 0, 1, 5, 3, 4]
    return b[tuple(idx)]


def gen_scene(rng, quick, i):
    T = 5 if quick else rng.choice([5, 8])
    kinds = [rng.choice(["pml", "pml", "pp", "pec", "pmc"]) for _ in range(3)]
    bt, th = {}, {}
    for a, k in enumerate(kinds):
        for side in ("min", "max"):
            f = f"{side}_{AX[a]}"
            bt[f] = "periodic" if k == "pp" else (k if rng.random() < 0.7 else rng.choice(["pec", "pmc", "pml"]))
            if k == "pp":
                bt[f] = "periodic"
            th[f] = 2 if bt[f] == "pml" else 1
    shape = [rng.randint(3, 4) + (i % 2 if a == 2 else 0) + sum(th[f"{sd}_{AX[a]}"] for sd in ("min", "max") if bt[f"{sd}_{AX[a]}"] == "pml") for a in range(3)]
    lo = [th[f"min_{AX[a]}"] if bt[f"min_{AX[a]}"] == "pml" else 0 for a in range(3)]
    hi = [shape[a] - (th[f"max_{AX[a]}"] if bt[f"max_{AX[a]}"] == "pml" else 0) for a in range(3)]
    def cell():
        return [rng.randint(lo[a] + 0, hi[a] - 1) for a in range(3)]
    def box(minsize=1):
        b = []
        for a in range(3):
            s = rng.randint(lo[a], hi[a] - minsize)
            b.append([s, rng.randint(s + minsize, hi[a])])
        return b
    srcs = [{"kind": "dipole", "cell": cell(), "pol": rng.randint(0, 2)}, {"kind": "dipole", "cell": cell(), "pol": rng.randint(0, 2), "mag": True}]
    ax = next((a for a in range(3) if all(bt[f"{s}_{AX[b]}"] == "periodic" for b in range(3) if b != a for s in ("min", "max"))), None)
    if ax is not None and hi[ax] - lo[ax] >= 2:
        pol = [0.0, 0.0, 0.0]
        pol[(ax + 1) % 3], pol[(ax + 2) % 3] = 1.0, rng.choice([0.0, 0.5])
        srcs.append({"kind": rng.choice(["plane", "gauss"]), "axis": ax, "pos": rng.randint(lo[ax], hi[ax] - 1), "dir": rng.choice("+-"), "pol": pol, "radius": 1.5e-7})
    eps9 = [2.0, 0.3, 0.1, 0.3, 2.5, 0.2, 0.1, 0.2, 3.0]
    mu9 = [1.6, 0.2, 0.1, 0.2, 1.2, 0.15, 0.1, 0.15, 2.2]
    blocks = [{"box": box(2), "eps": rng.choice([2.25] if len(srcs) == 3 else [2.25, [2.0, 3.0, 4.0], eps9]), "sigma_e": rng.choice([None, 5e-4]),
               # the permeability tier is drawn independently of the permittivity tier (1 / 3 / 9 components each)
               "mu": rng.choice([None, 1.5] if len(srcs) == 3 else [None, 1.5, [1.6, 1.0, 2.2], mu9]), "sigma_m": rng.choice([None, 50.0])}]
    dets = [{"kind": "field", "box": box(), "name": "fd", "opts": {"exact_interpolation": False}},
            {"kind": "phasor", "box": box(), "name": "ph", "opts": {"exact_interpolation": False}},
            {"kind": "energy", "box": box(), "name": "en", "opts": {"as_slices": False, "exact_interpolation": False}}]
    return {"shape": shape, "spacing": 5e-8, "steps": T, "bt": bt, "thickness": th, "sources": srcs, "detectors": dets, "blocks": blocks}


def gen_cases(ctx):
    cases = []
    for i in range(ctx.pick(2, 8)):
        s0 = gen_scene(ctx.rng, ctx.quick, i)
        s1 = perm_spec(s0)
        s2 = perm_spec(s1)
        cases.append({"kind": "triple", "specs": [s0, s1, s2]})
    # tilted plane / Gaussian sources on a non-square source plane (azimuth / elevation are defined relative to the cyclic
    # (horizontal, vertical) pair of the propagation axis, so they keep their values under the relabelling)
    for i in range(ctx.pick(1, 3)):
        rng = ctx.rng
        a0 = i % 3 if not ctx.quick else rng.randint(0, 2)
        shape = [0, 0, 0]
        shape[a0], shape[(a0 + 1) % 3], shape[(a0 + 2) % 3] = 9, 4, 6
        bt = {f"{sd}_{AX[a]}": ("pml" if a == a0 else "periodic") for a in range(3) for sd in ("min", "max")}
        pol = [0.0, 0.0, 0.0]
        pol[(a0 + 1) % 3], pol[(a0 + 2) % 3] = 1.0, rng.choice([0.0, 0.5])
        blk = [[0, 0], [0, 0], [0, 0]]
        blk[a0], blk[(a0 + 1) % 3], blk[(a0 + 2) % 3] = [5, 7], [1, 3], [2, 5]
        det = [[0, 0], [0, 0], [0, 0]]
        det[a0], det[(a0 + 1) % 3], det[(a0 + 2) % 3] = [3, 7], [0, 4], [1, 5]
        s0 = {"shape": shape, "spacing": 5e-8, "steps": ctx.pick(6, 10), "bt": bt, "thickness": {f: (2 if v == "pml" else 1) for f, v in bt.items()},
              "sources": [{"kind": "plane" if i % 2 == 0 else "gauss", "axis": a0, "pos": 3, "dir": rng.choice("+-"), "pol": pol, "radius": 1.5e-7,
                           "az": rng.choice([20.0, -15.0]), "el": rng.choice([10.0, 25.0])}],
              "detectors": [{"kind": "field", "box": det, "name": "fd", "opts": {"exact_interpolation": False}}],
              "blocks": [{"box": blk, "eps": 2.25, "sigma_e": None}]}
        s1 = perm_spec(s0)
        s2 = perm_spec(s1)
        cases.append({"kind": "triple", "specs": [s0, s1, s2]})
    # conductive fully anisotropic block (lossy 9-component update: all six off-diagonal couplings and their co-location stencils)
    eps9 = [2.0, 0.3, 0.1, 0.3, 2.5, 0.2, 0.1, 0.2, 3.0]
    sig9 = [2.0e4, 3.0e3, 1.0e3, 3.0e3, 1.5e4, 2.0e3, 1.0e3, 2.0e3, 2.5e4]
    s0 = {"shape": [6, 5, 7], "spacing": 5e-8, "steps": ctx.pick(5, 8), "thickness": 1,
          "bt": {"min_x": "pec", "max_x": "pmc", "min_y": "periodic", "max_y": "periodic", "min_z": "pmc", "max_z": "pec"},
          "sources": [{"kind": "dipole", "cell": [2, 2, 3], "pol": ctx.rng.randint(0, 2)}, {"kind": "dipole", "cell": [3, 1, 2], "pol": ctx.rng.randint(0, 2), "mag": True}],
          "detectors": [{"kind": "field", "box": [[1, 5], [0, 5], [1, 6]], "name": "fd", "opts": {"exact_interpolation": False}}],
          "blocks": [{"box": [[1, 5], [0, 4], [1, 5]], "eps": eps9, "sigma_e": ctx.rng.choice([2.0e4, sig9])}]}
    s1 = perm_spec(s0)
    s2 = perm_spec(s1)
    cases.append({"kind": "triple", "specs": [s0, s1, s2]})
    # mixed storage tiers: isotropic permittivity with diagonal permeability, diagonal permittivity with full permeability tensor
    mu9 = [1.6, 0.2, 0.1, 0.2, 1.2, 0.15, 0.1, 0.15, 2.2]
    for eps, mu in ctx.pick([(2.25, [1.6, 1.0, 2.2])], [(2.25, [1.6, 1.0, 2.2]), ([2.0, 3.0, 4.0], mu9), (2.25, mu9), ([2.0, 3.0, 4.0], 1.5)]):
        s0 = {"shape": [6, 5, 7], "spacing": 5e-8, "steps": ctx.pick(5, 8), "thickness": 1,
              "bt": {"min_x": "pec", "max_x": "pmc", "min_y": "periodic", "max_y": "periodic", "min_z": "pmc", "max_z": "pec"},
              "sources": [{"kind": "dipole", "cell": [2, 2, 3], "pol": ctx.rng.randint(0, 2)}, {"kind": "dipole", "cell": [3, 1, 2], "pol": ctx.rng.randint(0, 2), "mag": True}],
              "detectors": [{"kind": "field", "box": [[1, 5], [0, 5], [1, 6]], "name": "fd", "opts": {"exact_interpolation": False}}],
              "blocks": [{"box": [[1, 5], [0, 4], [1, 5]], "eps": eps, "mu": mu, "sigma_e": None}]}
        s1 = perm_spec(s0)
        s2 = perm_spec(s1)
        cases.append({"kind": "triple", "specs": [s0, s1, s2]})
    # model tie: a small PML-free scene in three orientations, stepped by forward()
    m0 = {"shape": [3, 4, 5], "spacing": 5e-8, "courant": "exact_half", "steps": 2,
          "bt": {"min_x": "pec", "max_x": "pmc", "min_y": "periodic", "max_y": "periodic", "min_z": "pmc", "max_z": "pec"},
          "sources": [{"kind": "dipole", "cell": [1, 2, 3], "pol": 1}], "blocks": [{"box": [[0, 2], [1, 3], [2, 4]], "eps": [2.0, 4.0, 8.0]}],
          "init": {"seed": 7, "kind": "int4"}}
    for _ in range(3):
        cases.append({"kind": "model", "spec": m0, "steps": 2, "back": 0, "shape": m0["shape"], "bt": m0["bt"]})
        m0 = perm_spec(m0)
        m0["init"] = {"seed": 7, "kind": "int4"}
    return cases


def run_cases(ctx, cases):
    tri = [c for c in cases if c["kind"] == "triple"]
    flat = [{"spec": s} for c in tri for s in c["specs"]]
    of = core.run_impl_sharded(IMPL, flat, shard=min(len(flat), 8), timeout=2400)
    om = core.run_impl_sharded("scene_impl.py", [c for c in cases if c["kind"] == "model"], shard=1)
    it, im = iter(of), iter(om)
    return [[next(it), next(it), next(it)] if c["kind"] == "triple" else next(im) for c in cases]


def coq_expr(case, out):
    if case["kind"] != "model":
        return None
    if "error" in out:
        return "false"
    inj = Y.inj_term(case["shape"], out["injE"], out["injH"])
    sc = Y.scene_term(case, out, inj=inj)
    st = out["states"]
    return Y.steps_expr(case["shape"], sc, [("forwardX", a, b) for a, b in zip(st, st[1:])], False, scale=max(Y.maxabs(out), 1.0))


def arr(x):
    if isinstance(x, dict):
        return np.array(_f(x["re"])) + 1j * np.array(_f(x["im"]))
    return np.array(_f(x))


def _f(x):
    return [_f(v) for v in x] if isinstance(x, list) else (float.fromhex(x) if isinstance(x, str) else x)


COMP_AXIS = {"fd:fields": 1, "ph:phasor": 2, "en:energy": None}


def predicate(case, out):
    if case["kind"] == "model":
        return ("driver-error", out["error"]) if "error" in out else None
    for o in out:
        if "error" in o:
            return ("driver-error", o["error"] + o.get("trace", "")[-300:])
    bt = case["specs"][0]["bt"]
    key = "bt=" + ",".join(f"{k}:{v}" for k, v in sorted(bt.items()))
    cur = out[0]
    for n in (1, 2):
        nxt = out[n]
        if nxt["t"] != cur["t"]:
            return ("steps:" + key, "step counts differ between orientations")
        for name in ("E", "H"):
            exp = perm_arr(arr(cur[name]), 0)
            got = arr(nxt[name])
            sc = max(float(np.abs(exp).max()), 1e-300)
            if exp.shape != got.shape or float(np.abs(exp - got).max()) > 1e-12 * sc:
                return (f"not-equivariant:{name};" + key, f"{name} of orientation {n} is not the permuted {name} of orientation {n - 1}: {float(np.abs(exp - got).max()) / sc:.3e}")
        for k, v in cur["det"].items():
            a = arr(v)
            ca = COMP_AXIS.get(k)
            if k == "en:energy":
                exp = a.transpose([0, 3, 1, 2]) if a.ndim == 4 else a
            else:
                exp = perm_arr(a, ca)
            got = arr(nxt["det"][k])
            sc = max(float(np.abs(exp).max()), 1e-300)
            if exp.shape != got.shape or float(np.abs(exp - got).max()) > 1e-12 * sc:
                return (f"not-equivariant:{k};" + key, f"detector record {k} is not permuted consistently (orientation {n}): shapes {exp.shape} {got.shape}")
        cur = nxt
    return None


def nontrivial(case, out):
    if case["kind"] == "model":
        return "error" not in out
    return all("error" not in o for o in out) and float(np.abs(arr(out[0]["E"])).max()) > 0


def classify(case, out):
    if case["kind"] == "model":
        return "model"
    return "+".join(sorted(set(case["specs"][0]["bt"].values()))) + "|" + "+".join(s["kind"] for s in case["specs"][0]["sources"])
